// Reference AV1 decoders (dav1d, libaom) loaded with dlopen; no headers in the image, ABIs are
// hand-declared and probed.  DESIGN.md §5.
#pragma once
#include <cstdint>
#include <string>
#include <vector>

namespace refdec {

struct Picture {
    int w = 0, h = 0, bpc = 8, ss_x = 1, ss_y = 1, mono = 0;
    std::vector<uint8_t> data; // planar Y,Cb,Cr tightly packed; 1 byte/sample if bpc==8 else 2 bytes LE
    uint64_t hash() const;
};

class Decoder {
public:
    virtual ~Decoder() {}
    virtual const char *name() const = 0;
    // feed one temporal unit; appends decoded output pictures; returns false + err on decode error
    virtual bool decode(const uint8_t *data, size_t len, std::vector<Picture> &out, std::string &err) = 0;
    virtual bool flush(std::vector<Picture> &out, std::string &err) = 0;
};

Decoder *open_dav1d(std::string &err);   // nullptr if unavailable
Decoder *open_libaom(std::string &err);  // nullptr if unavailable

} // namespace refdec
