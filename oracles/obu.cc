// Independent AV1 OBU parser — see obu.h.  Written from the AV1 specification text.
#include "obu.h"
#include <cstring>
#include <algorithm>

namespace obu {

struct BitR {
    const uint8_t *p; size_t nbits; size_t pos = 0; bool overrun = false;
    BitR(const uint8_t *d, size_t nbytes) : p(d), nbits(nbytes * 8) {}
    int bit() { if (pos >= nbits) { overrun = true; return 0; } int b = (p[pos >> 3] >> (7 - (pos & 7))) & 1; pos++; return b; }
    uint32_t f(int n) { uint32_t v = 0; for (int i = 0; i < n; i++) v = (v << 1) | (uint32_t)bit(); return v; }
    int su(int n) { int v = (int)f(n); int sign = 1 << (n - 1); if (v & sign) v -= 2 * sign; return v; }
    uint32_t ns(uint32_t n) { int w = 0; uint32_t x = n; while (x) { x >>= 1; w++; } uint32_t m = (1u << w) - n; uint32_t v = f(w - 1); if (v < m) return v; uint32_t extra = f(1); return (v << 1) - m + extra; }
    uint32_t uvlc() { int lz = 0; while (!bit()) { lz++; if (lz >= 32 || overrun) return 0xffffffffu; } if (lz >= 32) return 0xffffffffu; return f(lz) + ((1u << lz) - 1); }
    uint32_t le(int n) { uint32_t t = 0; for (int i = 0; i < n; i++) t += f(8) << (i * 8); return t; }
    void align() { while (pos & 7) bit(); }
    size_t byte_pos() const { return pos >> 3; }
};

static bool leb128(const uint8_t *p, size_t n, uint64_t &v, size_t &len) {
    v = 0;
    for (size_t i = 0; i < 8; i++) { if (i >= n) return false; v |= (uint64_t)(p[i] & 0x7f) << (i * 7); if (!(p[i] & 0x80)) { len = i + 1; return v <= 0xffffffffu; } }
    return false;
}
int tile_log2(int blk, int target) { int k; for (k = 0; (blk << k) < target; k++) {} return k; }
const char *frame_type_name(int t) { static const char *n[] = {"KEY", "INTER", "INTRA_ONLY", "SWITCH"}; return n[t & 3]; }

static const uint8_t q2qi[64] = {0, 4, 8, 12, 16, 20, 24, 28, 32, 36, 40, 44, 48, 52, 56, 60, 64, 68, 72, 76, 80, 84, 88, 92, 96, 100, 104, 108, 112, 116, 120, 124, 128, 132, 136, 140, 144, 148, 152, 156, 160, 164, 168, 172, 176, 180, 184, 188, 192, 196, 200, 204, 208, 212, 216, 220, 224, 228, 232, 236, 240, 244, 249, 255};
int qindex_of_qp(int qp) { return q2qi[qp < 0 ? 0 : qp > 63 ? 63 : qp]; }

void Parser::reset() { seq = SeqHdr(); for (auto &r : ref) r = RefSlot(); seen_frame_header_ = false; have_cur_ = false; }

bool Parser::parse_seq(const uint8_t *p, size_t n, std::string &err) {
    BitR b(p, n); SeqHdr s;
    s.profile = b.f(3); s.still_picture = b.f(1); s.reduced_still = b.f(1);
    if (s.reduced_still) { s.op_cnt = 1; s.op_idc[0] = 0; s.level_idx[0] = b.f(5); }
    else {
        s.timing_info_present = b.f(1);
        if (s.timing_info_present) {
            b.f(32); b.f(32); s.equal_picture_interval = b.f(1); if (s.equal_picture_interval) b.uvlc();
            s.decoder_model_info_present = b.f(1);
            if (s.decoder_model_info_present) { s.buffer_delay_length = b.f(5) + 1; b.f(32); s.buffer_removal_time_length = b.f(5) + 1; s.frame_presentation_time_length = b.f(5) + 1; }
        }
        s.initial_display_delay_present = b.f(1);
        s.op_cnt = b.f(5) + 1;
        for (int i = 0; i < s.op_cnt; i++) {
            s.op_idc[i] = b.f(12); s.level_idx[i] = b.f(5); s.tier[i] = s.level_idx[i] > 7 ? b.f(1) : 0;
            if (s.decoder_model_info_present) { s.decoder_model_present_for_op[i] = b.f(1); if (s.decoder_model_present_for_op[i]) { b.f(s.buffer_delay_length); b.f(s.buffer_delay_length); b.f(1); } }
            if (s.initial_display_delay_present) { if (b.f(1)) b.f(4); }
        }
    }
    s.frame_width_bits = b.f(4) + 1; s.frame_height_bits = b.f(4) + 1;
    s.max_w = b.f(s.frame_width_bits) + 1; s.max_h = b.f(s.frame_height_bits) + 1;
    s.frame_id_numbers_present = s.reduced_still ? 0 : b.f(1);
    if (s.frame_id_numbers_present) { s.delta_frame_id_length = b.f(4) + 2; s.additional_frame_id_length = b.f(3) + 1; }
    s.use_128 = b.f(1); s.enable_filter_intra = b.f(1); s.enable_intra_edge = b.f(1);
    if (s.reduced_still) { s.force_sct = 2; s.force_integer_mv = 2; s.order_hint_bits = 0; }
    else {
        s.enable_interintra = b.f(1); s.enable_masked_compound = b.f(1); s.enable_warped_motion = b.f(1); s.enable_dual_filter = b.f(1);
        s.enable_order_hint = b.f(1);
        if (s.enable_order_hint) { s.enable_jnt_comp = b.f(1); s.enable_ref_frame_mvs = b.f(1); }
        if (b.f(1)) s.force_sct = 2; else s.force_sct = b.f(1);
        if (s.force_sct > 0) { if (b.f(1)) s.force_integer_mv = 2; else s.force_integer_mv = b.f(1); } else s.force_integer_mv = 2;
        if (s.enable_order_hint) s.order_hint_bits = b.f(3) + 1;
    }
    s.enable_superres = b.f(1); s.enable_cdef = b.f(1); s.enable_restoration = b.f(1);
    int hb = b.f(1);
    if (s.profile == 2 && hb) s.bit_depth = b.f(1) ? 12 : 10; else s.bit_depth = hb ? 10 : 8;
    s.mono = s.profile == 1 ? 0 : b.f(1); s.num_planes = s.mono ? 1 : 3;
    s.color_desc = b.f(1);
    if (s.color_desc) { s.cp = b.f(8); s.tc = b.f(8); s.mc = b.f(8); }
    if (s.mono) { s.color_range = b.f(1); s.subx = s.suby = 1; s.separate_uv_delta_q = 0; }
    else {
        if (s.cp == 1 && s.tc == 13 && s.mc == 0) { s.color_range = 1; s.subx = s.suby = 0; }
        else {
            s.color_range = b.f(1);
            if (s.profile == 0) s.subx = s.suby = 1; else if (s.profile == 1) s.subx = s.suby = 0;
            else { if (s.bit_depth == 12) { s.subx = b.f(1); s.suby = s.subx ? b.f(1) : 0; } else { s.subx = 1; s.suby = 0; } }
            if (s.subx && s.suby) s.csp = b.f(2);
        }
        s.separate_uv_delta_q = b.f(1);
    }
    s.film_grain_present = b.f(1);
    if (b.overrun) { err = "sequence header overruns OBU"; return false; }
    // trailing bits: one 1 then zeros to the end
    if (!b.bit()) { err = "sequence header: trailing_one_bit missing"; return false; }
    while (b.pos < b.nbits) if (b.bit()) { err = "sequence header: non-zero trailing bits"; return false; }
    s.valid = true; seq = s; return true;
}

static int rel_dist(const SeqHdr &s, int a, int b) {
    if (!s.enable_order_hint) return 0;
    int diff = a - b, m = 1 << (s.order_hint_bits - 1);
    return (diff & (m - 1)) - (diff & m);
}
static void default_gm(int32_t gm[8][6]) { for (int r = 0; r < 8; r++) for (int i = 0; i < 6; i++) gm[r][i] = (i % 3 == 2) ? (1 << 16) : 0; }

static int decode_subexp(BitR &b, int numSyms) {
    int i = 0, mk = 0, k = 3;
    for (;;) {
        int b2 = i ? k + i - 1 : k; int a = 1 << b2;
        if (numSyms <= mk + 3 * a) return (int)b.ns((uint32_t)(numSyms - mk)) + mk;
        if (b.f(1)) { i++; mk += a; } else return (int)b.f(b2) + mk;
        if (b.overrun) return 0;
    }
}
static int inv_recenter(int r, int v) { if (v > 2 * r) return v; if (v & 1) return r - ((v + 1) >> 1); return r + (v >> 1); }
static int dec_unsigned_subexp_ref(BitR &b, int mx, int r) { int v = decode_subexp(b, mx); if ((r << 1) <= mx) return inv_recenter(r, v); return mx - 1 - inv_recenter(mx - 1 - r, v); }
static int dec_signed_subexp_ref(BitR &b, int low, int high, int r) { return dec_unsigned_subexp_ref(b, high - low, r - low) + low; }

static void superres_and_size(BitR &b, const SeqHdr &s, FrameHdr &h) {
    h.use_superres = s.enable_superres ? b.f(1) : 0;
    h.superres_denom = h.use_superres ? (int)b.f(3) + 9 : 8;
    h.upscaled_w = h.frame_w;
    h.frame_w = (h.upscaled_w * 8 + h.superres_denom / 2) / h.superres_denom;
    h.mi_cols = 2 * ((h.frame_w + 7) >> 3); h.mi_rows = 2 * ((h.frame_h + 7) >> 3);
}
static void frame_size(BitR &b, const SeqHdr &s, FrameHdr &h) {
    if (h.frame_size_override) { h.frame_w = b.f(s.frame_width_bits) + 1; h.frame_h = b.f(s.frame_height_bits) + 1; } else { h.frame_w = s.max_w; h.frame_h = s.max_h; }
    superres_and_size(b, s, h);
}
static void render_size(BitR &b, FrameHdr &h) {
    if (b.f(1)) { h.render_w = b.f(16) + 1; h.render_h = b.f(16) + 1; } else { h.render_w = h.upscaled_w; h.render_h = h.frame_h; }
}
static int read_delta_q(BitR &b) { return b.f(1) ? b.su(7) : 0; }

static void load_grain(FrameHdr &h, const FilmGrain &src) { h.fg = src; }

bool Parser::parse_frame_header(BitR &b, FrameHdr &h, std::string &err) {
    const SeqHdr &s = seq;
    if (!s.valid) { err = "frame header before any sequence header"; return false; }
    size_t start = b.pos;
    int idLen = s.frame_id_numbers_present ? s.additional_frame_id_length + s.delta_frame_id_length : 0;
    const int allFrames = 0xff;
    default_gm(h.gm_params);
    if (s.reduced_still) { h.show_existing = 0; h.frame_type = 0; h.intra = 1; h.show_frame = 1; h.showable = 0; h.error_res = 1; }
    else {
        h.show_existing = b.f(1);
        if (h.show_existing) {
            h.frame_to_show = b.f(3);
            if (s.decoder_model_info_present && !s.equal_picture_interval) b.f(s.frame_presentation_time_length);
            h.refresh_flags = 0;
            if (s.frame_id_numbers_present) b.f(idLen);
            if (!ref[h.frame_to_show].valid) { err = "show_existing_frame of an empty reference slot"; return false; }
            h.frame_type = ref[h.frame_to_show].frame_type;
            if (h.frame_type == 0) h.refresh_flags = allFrames;
            if (s.film_grain_present) load_grain(h, ref[h.frame_to_show].fg);
            h.order_hint = ref[h.frame_to_show].order_hint;
            h.frame_w = ref[h.frame_to_show].frame_w; h.frame_h = ref[h.frame_to_show].frame_h; h.upscaled_w = ref[h.frame_to_show].upscaled_w;
            h.render_w = ref[h.frame_to_show].render_w; h.render_h = ref[h.frame_to_show].render_h;
            h.header_bits = b.pos - start;
            if (b.overrun) { err = "frame header overruns OBU"; return false; }
            return true;
        }
        h.frame_type = b.f(2); h.intra = (h.frame_type == 2 || h.frame_type == 0);
        h.show_frame = b.f(1);
        if (h.show_frame && s.decoder_model_info_present && !s.equal_picture_interval) b.f(s.frame_presentation_time_length);
        h.showable = h.show_frame ? (h.frame_type != 0) : (int)b.f(1);
        if (h.frame_type == 3 || (h.frame_type == 0 && h.show_frame)) h.error_res = 1; else h.error_res = b.f(1);
    }
    if (h.frame_type == 0 && h.show_frame) for (auto &r : ref) { r.valid = false; r.order_hint = 0; }
    h.disable_cdf_update = b.f(1);
    h.allow_sct = s.force_sct == 2 ? (int)b.f(1) : s.force_sct;
    if (h.allow_sct) h.force_int_mv = s.force_integer_mv == 2 ? (int)b.f(1) : s.force_integer_mv; else h.force_int_mv = 0;
    if (h.intra) h.force_int_mv = 1;
    if (s.frame_id_numbers_present) b.f(idLen);
    if (h.frame_type == 3) h.frame_size_override = 1; else if (s.reduced_still) h.frame_size_override = 0; else h.frame_size_override = b.f(1);
    h.order_hint = b.f(s.order_hint_bits);
    if (h.intra || h.error_res) h.primary_ref = 7; else h.primary_ref = b.f(3);
    if (s.decoder_model_info_present) {
        if (b.f(1)) for (int op = 0; op < s.op_cnt; op++) if (s.decoder_model_present_for_op[op]) {
            int idc = s.op_idc[op]; // temporal/spatial id of this OBU unknown here: assume 0/0
            if (idc == 0 || ((idc & 1) && ((idc >> 8) & 1))) b.f(s.buffer_removal_time_length);
        }
    }
    h.allow_hp_mv = 0; h.use_ref_frame_mvs = 0; h.allow_intrabc = 0;
    if (h.frame_type == 3 || (h.frame_type == 0 && h.show_frame)) h.refresh_flags = allFrames; else h.refresh_flags = b.f(8);
    if (!h.intra || h.refresh_flags != allFrames) {
        if (h.error_res && s.enable_order_hint) for (int i = 0; i < 8; i++) { int oh = b.f(s.order_hint_bits); if (oh != ref[i].order_hint || !ref[i].valid) { ref[i].valid = false; ref[i].order_hint = oh; } }
    }
    if (h.frame_type == 0 || h.frame_type == 2) {
        frame_size(b, s, h); render_size(b, h);
        if (h.allow_sct && h.upscaled_w == h.frame_w) h.allow_intrabc = b.f(1);
    } else {
        int frs = 0;
        if (s.enable_order_hint) { frs = b.f(1); if (frs) { err = "frame_refs_short_signaling not supported by this parser"; return false; } }
        for (int i = 0; i < 7; i++) { h.ref_idx[i] = b.f(3); if (s.frame_id_numbers_present) b.f(s.delta_frame_id_length); }
        if (h.frame_size_override && !h.error_res) {
            int found = 0;
            for (int i = 0; i < 7; i++) { found = b.f(1); if (found) { const RefSlot &r = ref[h.ref_idx[i]]; h.upscaled_w = r.upscaled_w; h.frame_w = h.upscaled_w; h.frame_h = r.frame_h; h.render_w = r.render_w; h.render_h = r.render_h; break; } }
            if (!found) { frame_size(b, s, h); render_size(b, h); } else superres_and_size(b, s, h);
        } else { frame_size(b, s, h); render_size(b, h); }
        for (int i = 0; i < 7; i++) if (!ref[h.ref_idx[i]].valid) { err = "inter frame references an empty reference slot"; return false; }
        h.allow_hp_mv = h.force_int_mv ? 0 : (int)b.f(1);
        h.filter_switchable = b.f(1); h.interp_filter = h.filter_switchable ? 4 : (int)b.f(2);
        h.motion_mode_switchable = b.f(1);
        h.use_ref_frame_mvs = (h.error_res || !s.enable_ref_frame_mvs) ? 0 : (int)b.f(1);
    }
    if (s.reduced_still || h.disable_cdf_update) h.disable_frame_end_update_cdf = 1; else h.disable_frame_end_update_cdf = b.f(1);
    // load_previous(): gm params, loop filter deltas, segmentation features
    const RefSlot *prev = (h.primary_ref == 7) ? nullptr : &ref[h.ref_idx[h.primary_ref]];
    int32_t prev_gm[8][6]; if (prev) memcpy(prev_gm, prev->gm, sizeof prev_gm); else default_gm(prev_gm);
    if (prev) { memcpy(h.lf_ref_deltas, prev->lf_ref_deltas, sizeof h.lf_ref_deltas); memcpy(h.lf_mode_deltas, prev->lf_mode_deltas, sizeof h.lf_mode_deltas); }
    // tile_info
    {
        int sbCols = s.use_128 ? (h.mi_cols + 31) >> 5 : (h.mi_cols + 15) >> 4, sbRows = s.use_128 ? (h.mi_rows + 31) >> 5 : (h.mi_rows + 15) >> 4;
        int sbShift = s.use_128 ? 5 : 4, sbSize = sbShift + 2;
        int maxTileWidthSb = 4096 >> sbSize, maxTileAreaSb = (4096 * 2304) >> (2 * sbSize);
        int minLog2TileCols = tile_log2(maxTileWidthSb, sbCols), maxLog2TileCols = tile_log2(1, std::min(sbCols, 64)), maxLog2TileRows = tile_log2(1, std::min(sbRows, 64));
        int minLog2Tiles = std::max(minLog2TileCols, tile_log2(maxTileAreaSb, sbRows * sbCols));
        h.min_log2_tile_cols = minLog2TileCols; h.max_log2_tile_cols = maxLog2TileCols; h.max_log2_tile_rows = maxLog2TileRows;
        h.uniform_tiles = b.f(1);
        if (h.uniform_tiles) {
            h.tile_cols_log2 = minLog2TileCols;
            while (h.tile_cols_log2 < maxLog2TileCols) { if (b.f(1)) h.tile_cols_log2++; else break; }
            int tw = (sbCols + (1 << h.tile_cols_log2) - 1) >> h.tile_cols_log2; int i = 0; for (int st = 0; st < sbCols; i++) st += tw; h.tile_cols = i;
            int minLog2TileRows = std::max(minLog2Tiles - h.tile_cols_log2, 0); h.min_log2_tile_rows = minLog2TileRows;
            h.tile_rows_log2 = minLog2TileRows;
            while (h.tile_rows_log2 < maxLog2TileRows) { if (b.f(1)) h.tile_rows_log2++; else break; }
            int th = (sbRows + (1 << h.tile_rows_log2) - 1) >> h.tile_rows_log2; i = 0; for (int st = 0; st < sbRows; i++) st += th; h.tile_rows = i;
        } else {
            int widest = 0, st = 0, i = 0;
            for (; st < sbCols; i++) { int mw = std::min(sbCols - st, maxTileWidthSb); int sz = (int)b.ns((uint32_t)mw) + 1; widest = std::max(widest, sz); st += sz; if (b.overrun) break; }
            h.tile_cols = i; h.tile_cols_log2 = tile_log2(1, h.tile_cols);
            if (minLog2Tiles > 0) maxTileAreaSb = (sbRows * sbCols) >> (minLog2Tiles + 1); else maxTileAreaSb = sbRows * sbCols;
            int maxTileHeightSb = std::max(maxTileAreaSb / std::max(widest, 1), 1);
            st = 0; i = 0;
            for (; st < sbRows; i++) { int mh = std::min(sbRows - st, maxTileHeightSb); int sz = (int)b.ns((uint32_t)mh) + 1; st += sz; if (b.overrun) break; }
            h.tile_rows = i; h.tile_rows_log2 = tile_log2(1, h.tile_rows);
        }
        if (h.tile_cols_log2 > 0 || h.tile_rows_log2 > 0) { h.ctx_update_tile_id = b.f(h.tile_cols_log2 + h.tile_rows_log2); h.tile_size_bytes = b.f(2) + 1; } else h.ctx_update_tile_id = 0;
    }
    // quantization_params
    h.base_q_idx = b.f(8); h.dq_y_dc = read_delta_q(b);
    if (s.num_planes > 1) {
        int diff = s.separate_uv_delta_q ? (int)b.f(1) : 0;
        h.dq_u_dc = read_delta_q(b); h.dq_u_ac = read_delta_q(b);
        if (diff) { h.dq_v_dc = read_delta_q(b); h.dq_v_ac = read_delta_q(b); } else { h.dq_v_dc = h.dq_u_dc; h.dq_v_ac = h.dq_u_ac; }
    }
    h.using_qmatrix = b.f(1);
    if (h.using_qmatrix) { h.qm_y = b.f(4); h.qm_u = b.f(4); h.qm_v = s.separate_uv_delta_q ? (int)b.f(4) : h.qm_u; }
    // segmentation_params
    {
        static const int bits[8] = {8, 6, 6, 6, 6, 3, 0, 0}, sgn[8] = {1, 1, 1, 1, 1, 0, 0, 0}, mx[8] = {255, 63, 63, 63, 63, 7, 0, 0};
        h.seg_enabled = b.f(1);
        if (h.seg_enabled) {
            if (h.primary_ref == 7) { h.seg_update_map = 1; h.seg_temporal = 0; h.seg_update_data = 1; }
            else { h.seg_update_map = b.f(1); if (h.seg_update_map) h.seg_temporal = b.f(1); h.seg_update_data = b.f(1); }
            if (h.seg_update_data) {
                for (int i = 0; i < 8; i++) for (int j = 0; j < 8; j++) {
                    int en = b.f(1), v = 0; h.seg_feature_en[i][j] = en;
                    if (en) { if (sgn[j]) { v = b.su(1 + bits[j]); v = std::max(-mx[j], std::min(mx[j], v)); } else { v = (int)b.f(bits[j]); v = std::max(0, std::min(mx[j], v)); } }
                    h.seg_feature_data[i][j] = v;
                }
            } else if (prev) { memcpy(h.seg_feature_en, prev->seg_en, sizeof h.seg_feature_en); memcpy(h.seg_feature_data, prev->seg_data, sizeof h.seg_feature_data); }
        }
    }
    h.delta_q_present = h.base_q_idx > 0 ? (int)b.f(1) : 0; if (h.delta_q_present) h.delta_q_res = b.f(2);
    if (h.delta_q_present) { if (!h.allow_intrabc) h.delta_lf_present = b.f(1); if (h.delta_lf_present) { h.delta_lf_res = b.f(2); h.delta_lf_multi = b.f(1); } }
    h.coded_lossless = 1;
    for (int sg = 0; sg < 8; sg++) {
        int q = h.base_q_idx; if (h.seg_enabled && h.seg_feature_en[sg][0]) q = std::max(0, std::min(255, q + h.seg_feature_data[sg][0]));
        int ll = q == 0 && !h.dq_y_dc && !h.dq_u_ac && !h.dq_u_dc && !h.dq_v_ac && !h.dq_v_dc; if (!ll) h.coded_lossless = 0;
    }
    h.all_lossless = h.coded_lossless && h.frame_w == h.upscaled_w;
    // loop_filter_params
    if (h.coded_lossless || h.allow_intrabc) { static const int d[8] = {1, 0, 0, 0, -1, 0, -1, -1}; memcpy(h.lf_ref_deltas, d, sizeof d); h.lf_mode_deltas[0] = h.lf_mode_deltas[1] = 0; }
    else {
        if (!prev) { static const int d[8] = {1, 0, 0, 0, -1, 0, -1, -1}; memcpy(h.lf_ref_deltas, d, sizeof d); h.lf_mode_deltas[0] = h.lf_mode_deltas[1] = 0; }
        h.lf_level[0] = b.f(6); h.lf_level[1] = b.f(6);
        if (s.num_planes > 1 && (h.lf_level[0] || h.lf_level[1])) { h.lf_level[2] = b.f(6); h.lf_level[3] = b.f(6); }
        h.lf_sharp = b.f(3); h.lf_delta_enabled = b.f(1);
        if (h.lf_delta_enabled) { h.lf_delta_update = b.f(1); if (h.lf_delta_update) { for (int i = 0; i < 8; i++) if (b.f(1)) h.lf_ref_deltas[i] = b.su(7); for (int i = 0; i < 2; i++) if (b.f(1)) h.lf_mode_deltas[i] = b.su(7); } }
    }
    // cdef_params
    if (!(h.coded_lossless || h.allow_intrabc || !s.enable_cdef)) {
        h.cdef_damping = b.f(2) + 3; h.cdef_bits = b.f(2);
        for (int i = 0; i < (1 << h.cdef_bits); i++) { h.cdef_y_pri[i] = b.f(4); h.cdef_y_sec[i] = b.f(2); if (s.num_planes > 1) { h.cdef_uv_pri[i] = b.f(4); h.cdef_uv_sec[i] = b.f(2); } }
    }
    // lr_params
    if (!(h.all_lossless || h.allow_intrabc || !s.enable_restoration)) {
        static const int remap[4] = {0, 3, 1, 2}; // NONE, SWITCHABLE, WIENER, SGRPROJ
        int chroma = 0;
        for (int i = 0; i < s.num_planes; i++) { h.lr_type[i] = remap[b.f(2)]; if (h.lr_type[i]) { h.uses_lr = 1; if (i > 0) chroma = 1; } }
        if (h.uses_lr) {
            if (s.use_128) { h.lr_unit_shift = b.f(1) + 1; } else { h.lr_unit_shift = b.f(1); if (h.lr_unit_shift) h.lr_unit_shift += b.f(1); }
            if (s.subx && s.suby && chroma) h.lr_uv_shift = b.f(1);
        }
    }
    if (!h.coded_lossless) h.tx_mode_select = b.f(1);
    h.reference_select = h.intra ? 0 : (int)b.f(1);
    // skip_mode_params
    if (h.intra || !h.reference_select || !s.enable_order_hint) h.skip_mode_allowed = 0;
    else {
        int fwd = -1, bwd = -1, fh = 0, bh = 0;
        for (int i = 0; i < 7; i++) {
            int rh = ref[h.ref_idx[i]].order_hint;
            if (rel_dist(s, rh, h.order_hint) < 0) { if (fwd < 0 || rel_dist(s, rh, fh) > 0) { fwd = i; fh = rh; } }
            else if (rel_dist(s, rh, h.order_hint) > 0) { if (bwd < 0 || rel_dist(s, rh, bh) < 0) { bwd = i; bh = rh; } }
        }
        if (fwd < 0) h.skip_mode_allowed = 0; else if (bwd >= 0) h.skip_mode_allowed = 1;
        else { int sf = -1, sh = 0; for (int i = 0; i < 7; i++) { int rh = ref[h.ref_idx[i]].order_hint; if (rel_dist(s, rh, fh) < 0) { if (sf < 0 || rel_dist(s, rh, sh) > 0) { sf = i; sh = rh; } } } h.skip_mode_allowed = sf >= 0; }
    }
    h.skip_mode_present = h.skip_mode_allowed ? (int)b.f(1) : 0;
    h.allow_warped = (h.intra || h.error_res || !s.enable_warped_motion) ? 0 : (int)b.f(1);
    h.reduced_tx_set = b.f(1);
    // global_motion_params
    if (!h.intra) {
        for (int r = 1; r <= 7; r++) {
            int type = 0;
            if (b.f(1)) { if (b.f(1)) type = 2; else type = b.f(1) ? 1 : 3; }
            h.gm_type[r] = type;
            auto rd = [&](int idx) {
                int absBits = 12, precBits = 15;
                if (idx < 2) { if (type == 1) { absBits = 9 - !h.allow_hp_mv; precBits = 3 - !h.allow_hp_mv; } else { absBits = 12; precBits = 6; } }
                int precDiff = 16 - precBits, round = (idx % 3) == 2 ? (1 << 16) : 0, sub = (idx % 3) == 2 ? (1 << precBits) : 0, mx = 1 << absBits;
                int rr = (prev_gm[r][idx] >> precDiff) - sub;
                h.gm_params[r][idx] = (dec_signed_subexp_ref(b, -mx, mx + 1, rr) << precDiff) + round;
            };
            if (type >= 2) { rd(2); rd(3); if (type == 3) { rd(4); rd(5); } else { h.gm_params[r][4] = -h.gm_params[r][3]; h.gm_params[r][5] = h.gm_params[r][2]; } }
            if (type >= 1) { rd(0); rd(1); }
            if (b.overrun) break;
        }
    }
    // film_grain_params
    if (s.film_grain_present && (h.show_frame || h.showable)) {
        FilmGrain &g = h.fg; g = FilmGrain();
        g.apply = b.f(1);
        if (g.apply) {
            g.seed = b.f(16);
            g.update = h.frame_type == 1 ? (int)b.f(1) : 1;
            if (!g.update) {
                int idx = b.f(3); int seed = g.seed;
                bool ok = false; for (int i = 0; i < 7; i++) if (h.ref_idx[i] == idx) ok = true;
                if (!ok) { err = "film_grain_params_ref_idx is not one of ref_frame_idx[]"; return false; }
                g = ref[idx].fg; g.seed = seed; g.apply = 1; g.update = 0;
            } else {
                g.num_y = b.f(4); for (int i = 0; i < g.num_y && i < 16; i++) { g.y_pts[i][0] = b.f(8); g.y_pts[i][1] = b.f(8); }
                g.chroma_from_luma = s.mono ? 0 : (int)b.f(1);
                if (s.mono || g.chroma_from_luma || (s.subx == 1 && s.suby == 1 && g.num_y == 0)) { g.num_cb = g.num_cr = 0; }
                else { g.num_cb = b.f(4); for (int i = 0; i < g.num_cb && i < 16; i++) { g.cb_pts[i][0] = b.f(8); g.cb_pts[i][1] = b.f(8); } g.num_cr = b.f(4); for (int i = 0; i < g.num_cr && i < 16; i++) { g.cr_pts[i][0] = b.f(8); g.cr_pts[i][1] = b.f(8); } }
                g.scaling_minus8 = b.f(2); g.ar_lag = b.f(2);
                int nl = 2 * g.ar_lag * (g.ar_lag + 1), nc = nl;
                if (g.num_y) { nc = nl + 1; for (int i = 0; i < nl; i++) g.ar_y[i] = b.f(8); }
                if (g.chroma_from_luma || g.num_cb) for (int i = 0; i < nc; i++) g.ar_cb[i] = b.f(8);
                if (g.chroma_from_luma || g.num_cr) for (int i = 0; i < nc; i++) g.ar_cr[i] = b.f(8);
                g.ar_shift_minus6 = b.f(2); g.scale_shift = b.f(2);
                if (g.num_cb) { g.cb_mult = b.f(8); g.cb_luma_mult = b.f(8); g.cb_offset = b.f(9); }
                if (g.num_cr) { g.cr_mult = b.f(8); g.cr_luma_mult = b.f(8); g.cr_offset = b.f(9); }
                g.overlap = b.f(1); g.clip = b.f(1);
            }
        }
    } else h.fg = FilmGrain();
    h.header_bits = b.pos - start;
    if (b.overrun) { err = "frame header overruns OBU"; return false; }
    return true;
}

void Parser::finish_frame(const FrameHdr &h) {
    // reference frame update process (7.20) and, for shown key frames via show_existing, the loading process (7.21)
    RefSlot ns;
    if (h.show_existing) { ns = ref[h.frame_to_show]; }
    else {
        ns.valid = true; ns.frame_type = h.frame_type; ns.order_hint = h.order_hint; ns.upscaled_w = h.upscaled_w; ns.frame_w = h.frame_w; ns.frame_h = h.frame_h;
        ns.render_w = h.render_w; ns.render_h = h.render_h; ns.mi_cols = h.mi_cols; ns.mi_rows = h.mi_rows; ns.bit_depth = seq.bit_depth; ns.subx = seq.subx; ns.suby = seq.suby;
        memcpy(ns.gm, h.gm_params, sizeof ns.gm); memcpy(ns.lf_ref_deltas, h.lf_ref_deltas, sizeof ns.lf_ref_deltas); memcpy(ns.lf_mode_deltas, h.lf_mode_deltas, sizeof ns.lf_mode_deltas);
        memcpy(ns.seg_en, h.seg_feature_en, sizeof ns.seg_en); memcpy(ns.seg_data, h.seg_feature_data, sizeof ns.seg_data); ns.fg = h.fg; ns.showable = h.showable;
    }
    for (int i = 0; i < 8; i++) if ((h.refresh_flags >> i) & 1) ref[i] = ns;
}

bool Parser::parse_tile_group(BitR &b, FrameRecord &fr, size_t payload_len, size_t, std::string &err) {
    FrameHdr &h = fr.h; int numTiles = h.tile_cols * h.tile_rows; int flag = 0, tg_start = 0, tg_end = numTiles - 1;
    size_t startBit = b.pos;
    if (numTiles > 1) flag = b.f(1);
    if (numTiles > 1 && flag) { int tb = h.tile_cols_log2 + h.tile_rows_log2; tg_start = b.f(tb); tg_end = b.f(tb); }
    b.align();
    (void)startBit;
    if (tg_start != fr.ntiles_seen) { err = "tile group does not start at the next expected tile"; return false; }
    if (tg_end < tg_start || tg_end >= numTiles) { err = "tile group end out of range"; return false; }
    size_t pos = b.byte_pos(); long sz = (long)payload_len - (long)pos;
    for (int t = tg_start; t <= tg_end; t++) {
        if (sz <= 0) { err = "tile data missing (tile sizes exceed OBU payload)"; return false; }
        long tsz;
        if (t == tg_end) tsz = sz;
        else {
            if (sz < h.tile_size_bytes) { err = "tile size field truncated"; return false; }
            uint32_t v = 0; for (int i = 0; i < h.tile_size_bytes; i++) v |= (uint32_t)b.p[pos + i] << (8 * i);
            tsz = (long)v + 1; pos += h.tile_size_bytes; sz -= h.tile_size_bytes;
            if (tsz > sz) { err = "tile_size exceeds remaining OBU payload"; return false; }
        }
        fr.tile_sizes.push_back((uint32_t)tsz); fr.tile_bytes += tsz; pos += tsz; sz -= tsz;
    }
    if (sz != 0) { err = "tile group: bytes left after last tile"; return false; }
    fr.ntiles_seen = tg_end + 1;
    if (fr.ntiles_seen == numTiles) fr.complete = true;
    return true;
}

TuReport Parser::parse_tu(const uint8_t *data, size_t len) {
    TuReport R; size_t off = 0; bool shown_done = false;
    while (off < len) {
        ObuInfo o{}; o.offset = off;
        uint8_t hb = data[off];
        if (hb & 0x80) { R.errors.push_back("obu_forbidden_bit set"); break; }
        o.type = (hb >> 3) & 15; int ext = (hb >> 2) & 1; o.has_size = (hb >> 1) & 1;
        if (hb & 1) { R.errors.push_back("obu_reserved_1bit set"); break; }
        size_t hl = 1;
        if (ext) { if (off + 1 >= len) { R.errors.push_back("OBU extension truncated"); break; } o.temporal_id = data[off + 1] >> 5; o.spatial_id = (data[off + 1] >> 3) & 3; hl = 2; }
        if (!o.has_size) { R.errors.push_back("OBU without obu_has_size_field in low-overhead stream"); break; }
        uint64_t sz; size_t ll;
        if (!leb128(data + off + hl, len - off - hl, sz, ll)) { R.errors.push_back("bad leb128 obu_size"); break; }
        hl += ll;
        if (off + hl + sz > len) { R.errors.push_back("obu_size exceeds packet"); break; }
        o.header_len = hl; o.payload_len = (size_t)sz;
        const uint8_t *pl = data + off + hl;
        R.obus.push_back(o);
        if (shown_done && o.type != 15 && o.type != 2) R.obus_after_shown++;
        std::string err;
        switch (o.type) {
        case 2: // temporal delimiter
            if (sz != 0) R.errors.push_back("temporal delimiter with payload");
            seen_frame_header_ = false;
            break;
        case 1: { // sequence header
            if (!parse_seq(pl, (size_t)sz, err)) R.errors.push_back(err);
            R.seq_hdr_payloads.emplace_back(data + off, data + off + hl + sz);
        } break;
        case 3: case 6: case 7: { // frame header, frame, redundant frame header
            BitR b(pl, (size_t)sz);
            if (seen_frame_header_) {
                if (o.type == 6) { R.errors.push_back("OBU_FRAME while previous frame incomplete"); break; }
                break; // redundant copy
            }
            if (o.type == 7) { R.errors.push_back("redundant frame header without frame header"); break; }
            FrameRecord fr; fr.obu_type = o.type;
            if (!parse_frame_header(b, fr.h, err)) { R.errors.push_back(err); off = len; break; }
            if (fr.h.show_existing) {
                // trailing bits for OBU_FRAME_HEADER
                if (o.type == 3) { if (!b.bit()) R.errors.push_back("frame header: trailing_one_bit missing"); while (b.pos < b.nbits) if (b.bit()) { R.errors.push_back("frame header: non-zero trailing bits"); break; } }
                else R.errors.push_back("show_existing_frame inside OBU_FRAME");
                fr.complete = true; finish_frame(fr.h); R.frames.push_back(fr); R.shown_frames++; shown_done = true;
                break;
            }
            if (o.type == 3) {
                if (!b.bit()) R.errors.push_back("frame header: trailing_one_bit missing"); while (b.pos < b.nbits) if (b.bit()) { R.errors.push_back("frame header: non-zero trailing bits"); break; }
                seen_frame_header_ = true; cur_ = fr.h; have_cur_ = true; R.frames.push_back(fr);
            } else {
                b.align();
                if (!parse_tile_group(b, fr, (size_t)sz, 0, err)) { R.errors.push_back(err); R.frames.push_back(fr); break; }
                R.frames.push_back(fr);
                if (fr.complete) { finish_frame(fr.h); if (fr.h.show_frame) { R.shown_frames++; shown_done = true; } seen_frame_header_ = false; }
                else { seen_frame_header_ = true; }
            }
        } break;
        case 4: { // tile group
            if (!seen_frame_header_ || R.frames.empty()) { R.errors.push_back("tile group without frame header"); break; }
            FrameRecord &fr = R.frames.back(); BitR b(pl, (size_t)sz);
            if (!parse_tile_group(b, fr, (size_t)sz, 0, err)) { R.errors.push_back(err); break; }
            if (fr.complete) { finish_frame(fr.h); if (fr.h.show_frame) { R.shown_frames++; shown_done = true; } seen_frame_header_ = false; }
        } break;
        case 5: case 15: case 8: break; // metadata, padding, tile list
        default: break; // reserved: ignored by decoders
        }
        off += hl + (size_t)sz;
    }
    return R;
}

} // namespace obu
