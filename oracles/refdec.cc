#include "refdec.h"
#include <dlfcn.h>
#include <cstring>
#include <cerrno>
#include <cstddef>

namespace refdec {

uint64_t Picture::hash() const { uint64_t x = 1469598103934665603ULL; for (uint8_t b : data) x = (x ^ b) * 1099511628211ULL; x = (x ^ (uint64_t)w) * 1099511628211ULL; x = (x ^ (uint64_t)h) * 1099511628211ULL; return x; }

static void copy_planes(Picture &p, const uint8_t *const planes[3], const ptrdiff_t strides[3]) {
    int bps = p.bpc > 8 ? 2 : 1; int cw = p.mono ? 0 : (p.w + p.ss_x) >> p.ss_x, ch = p.mono ? 0 : (p.h + p.ss_y) >> p.ss_y;
    p.data.resize((size_t)bps * ((size_t)p.w * p.h + 2 * (size_t)cw * ch));
    uint8_t *d = p.data.data();
    for (int y = 0; y < p.h; y++) { memcpy(d, planes[0] + y * strides[0], (size_t)p.w * bps); d += (size_t)p.w * bps; }
    for (int pl = 1; pl < 3 && !p.mono; pl++) for (int y = 0; y < ch; y++) { memcpy(d, planes[pl] + y * strides[pl], (size_t)cw * bps); d += (size_t)cw * bps; }
}

// ---------------- dav1d 1.0.0 ----------------
struct D1Data { const uint8_t *data; size_t sz; void *ref; struct { int64_t timestamp, duration, offset; size_t size; struct { const uint8_t *data; void *ref; } user_data; } m; };
struct D1PicHead { void *seq_hdr; void *frame_hdr; void *data[3]; ptrdiff_t stride[2]; struct { int w, h, layout, bpc; } p; };

class Dav1d : public Decoder {
    void *lib = nullptr, *ctx = nullptr;
    void (*default_settings)(void *) = nullptr; int (*open_)(void **, const void *) = nullptr; uint8_t *(*data_create)(D1Data *, size_t) = nullptr;
    int (*send_data)(void *, D1Data *) = nullptr; int (*get_picture)(void *, void *) = nullptr; void (*picture_unref)(void *) = nullptr; void (*close_)(void **) = nullptr;
    void (*data_unref)(D1Data *) = nullptr; const char *(*version)() = nullptr;
public:
    bool init(std::string &err) {
        lib = dlopen("libdav1d.so.6", RTLD_NOW | RTLD_LOCAL);
        if (!lib) { err = std::string("dlopen libdav1d.so.6: ") + dlerror(); return false; }
#define SYM(v, n) *(void **)(&v) = dlsym(lib, n); if (!v) { err = std::string("missing ") + n; return false; }
        SYM(default_settings, "dav1d_default_settings") SYM(open_, "dav1d_open") SYM(data_create, "dav1d_data_create") SYM(send_data, "dav1d_send_data")
        SYM(get_picture, "dav1d_get_picture") SYM(picture_unref, "dav1d_picture_unref") SYM(close_, "dav1d_close") SYM(data_unref, "dav1d_data_unref") SYM(version, "dav1d_version")
#undef SYM
        if (strncmp(version(), "1.0", 3)) { err = std::string("unexpected dav1d version ") + version(); return false; }
        alignas(16) uint8_t settings[2048]; memset(settings, 0, sizeof settings);
        default_settings(settings);
        int *si = (int *)settings; si[0] = 1; si[1] = 1; /* n_threads, max_frame_delay */
        if (si[2] != 1) { err = "dav1d settings layout probe failed (apply_grain)"; return false; }
        if (open_(&ctx, settings) < 0) { err = "dav1d_open failed"; return false; }
        return true;
    }
    ~Dav1d() override { if (ctx) close_(&ctx); }
    const char *name() const override { return "dav1d-1.0.0"; }
    bool drain(std::vector<Picture> &out) {
        for (;;) {
            alignas(16) uint8_t pb[1024]; memset(pb, 0, sizeof pb);
            int r = get_picture(ctx, pb);
            if (r < 0) return r == -EAGAIN;
            D1PicHead *ph = (D1PicHead *)pb; Picture p; p.w = ph->p.w; p.h = ph->p.h; p.bpc = ph->p.bpc;
            p.mono = ph->p.layout == 0; p.ss_x = ph->p.layout == 3 ? 0 : 1; p.ss_y = ph->p.layout == 1 ? 1 : (ph->p.layout == 0 ? 1 : 0);
            const uint8_t *pl[3] = {(uint8_t *)ph->data[0], (uint8_t *)ph->data[1], (uint8_t *)ph->data[2]}; ptrdiff_t st[3] = {ph->stride[0], ph->stride[1], ph->stride[1]};
            copy_planes(p, pl, st); out.push_back(std::move(p)); picture_unref(pb);
        }
    }
    bool decode(const uint8_t *data, size_t len, std::vector<Picture> &out, std::string &err) override {
        if (!len) return true;
        D1Data d; memset(&d, 0, sizeof d); uint8_t *w = data_create(&d, len); if (!w) { err = "dav1d_data_create"; return false; } memcpy(w, data, len);
        while (d.sz > 0) {
            int r = send_data(ctx, &d);
            if (r < 0 && r != -EAGAIN) { data_unref(&d); err = "dav1d_send_data error " + std::to_string(r); return false; }
            if (!drain(out)) { if (d.sz) data_unref(&d); err = "dav1d_get_picture error"; return false; }
        }
        if (!drain(out)) { err = "dav1d_get_picture error"; return false; }
        return true;
    }
    bool flush(std::vector<Picture> &out, std::string &err) override { if (!drain(out)) { err = "dav1d_get_picture error at flush"; return false; } return true; }
};
Decoder *open_dav1d(std::string &err) { Dav1d *d = new Dav1d(); if (!d->init(err)) { delete d; return nullptr; } return d; }

// ---------------- libaom 3.6 ----------------
struct AomCtx { const char *name; void *iface; int err; const char *err_detail; long init_flags; void *config; void *priv; };
struct AomImg { int fmt, cp, tc, mc, monochrome, csp, range; unsigned w, h, bit_depth, d_w, d_h, r_w, r_h, x_chroma_shift, y_chroma_shift; unsigned char *planes[3]; int stride[3]; };
class Aom : public Decoder {
    void *lib = nullptr; AomCtx ctx; bool inited = false;
    void *(*iface)() = nullptr; int (*init_ver)(AomCtx *, void *, const void *, long, int) = nullptr; int (*decode_)(AomCtx *, const uint8_t *, size_t, void *) = nullptr;
    AomImg *(*get_frame)(AomCtx *, void **) = nullptr; int (*destroy)(AomCtx *) = nullptr;
public:
    bool init(std::string &err) {
        lib = dlopen("libaom.so.3", RTLD_NOW | RTLD_LOCAL);
        if (!lib) { err = std::string("dlopen libaom.so.3: ") + dlerror(); return false; }
#define SYM(v, n) *(void **)(&v) = dlsym(lib, n); if (!v) { err = std::string("missing ") + n; return false; }
        SYM(iface, "aom_codec_av1_dx") SYM(init_ver, "aom_codec_dec_init_ver") SYM(decode_, "aom_codec_decode") SYM(get_frame, "aom_codec_get_frame") SYM(destroy, "aom_codec_destroy")
#undef SYM
        memset(&ctx, 0, sizeof ctx);
        int ok = -1; for (int abi : {22, 21, 23, 20, 24, 19, 25}) { memset(&ctx, 0, sizeof ctx); if (init_ver(&ctx, iface(), nullptr, 0, abi) == 0) { ok = abi; break; } }
        if (ok < 0) { err = "aom_codec_dec_init_ver: no ABI accepted"; return false; }
        inited = true; return true;
    }
    ~Aom() override { if (inited) destroy(&ctx); }
    const char *name() const override { return "libaom-3.6.0"; }
    bool decode(const uint8_t *data, size_t len, std::vector<Picture> &out, std::string &err) override {
        if (decode_(&ctx, data, len, nullptr)) { err = std::string("aom_codec_decode error ") + (ctx.err_detail ? ctx.err_detail : ""); return false; }
        void *it = nullptr; AomImg *im;
        while ((im = get_frame(&ctx, &it))) {
            Picture p; p.w = im->d_w; p.h = im->d_h; p.bpc = im->bit_depth; p.mono = im->monochrome; p.ss_x = im->x_chroma_shift; p.ss_y = im->y_chroma_shift;
            bool hb = im->fmt & 0x800;
            const uint8_t *pl[3] = {im->planes[0], im->planes[1], im->planes[2]}; ptrdiff_t st[3] = {im->stride[0], im->stride[1], im->stride[2]};
            if (hb && p.bpc == 8) { // 16-bit container for 8-bit data: narrow
                Picture q = p; q.bpc = 16; copy_planes(q, pl, st); p.data.resize(q.data.size() / 2); for (size_t i = 0; i < p.data.size(); i++) p.data[i] = q.data[2 * i]; }
            else if (!hb && p.bpc > 8) { err = "libaom image layout probe failed"; return false; }
            else copy_planes(p, pl, st);
            out.push_back(std::move(p));
        }
        return true;
    }
    bool flush(std::vector<Picture> &, std::string &) override { return true; }
};
Decoder *open_libaom(std::string &err) { Aom *d = new Aom(); if (!d->init(err)) { delete d; return nullptr; } return d; }

} // namespace refdec
