// Independent AV1 OBU / sequence-header / frame-header parser written from the AV1 bitstream
// specification (sections 5.3–5.11).  Shares no code with SVT-AV1.  DESIGN.md §5.
#pragma once
#include <cstdint>
#include <cstddef>
#include <string>
#include <vector>

namespace obu {

struct SeqHdr {
    bool valid = false;
    int profile = 0, still_picture = 0, reduced_still = 0;
    int timing_info_present = 0, decoder_model_info_present = 0, equal_picture_interval = 0;
    int buffer_delay_length = 0, buffer_removal_time_length = 0, frame_presentation_time_length = 0;
    int initial_display_delay_present = 0, op_cnt = 1;
    int op_idc[32] = {0}, level_idx[32] = {0}, tier[32] = {0}, decoder_model_present_for_op[32] = {0};
    int frame_width_bits = 0, frame_height_bits = 0, max_w = 0, max_h = 0;
    int frame_id_numbers_present = 0, delta_frame_id_length = 0, additional_frame_id_length = 0;
    int use_128 = 0, enable_filter_intra = 0, enable_intra_edge = 0, enable_interintra = 0, enable_masked_compound = 0;
    int enable_warped_motion = 0, enable_dual_filter = 0, enable_order_hint = 0, enable_jnt_comp = 0, enable_ref_frame_mvs = 0;
    int force_sct = 2, force_integer_mv = 2, order_hint_bits = 0;
    int enable_superres = 0, enable_cdef = 0, enable_restoration = 0;
    int bit_depth = 8, mono = 0, num_planes = 3, color_desc = 0, cp = 2, tc = 2, mc = 2, color_range = 0, subx = 1, suby = 1, csp = 0, separate_uv_delta_q = 0;
    int film_grain_present = 0;
};

struct FilmGrain {
    int apply = 0, seed = 0, update = 0, num_y = 0, num_cb = 0, num_cr = 0, chroma_from_luma = 0, scaling_minus8 = 0, ar_lag = 0;
    int ar_shift_minus6 = 0, scale_shift = 0, overlap = 0, clip = 0;
    int cb_mult = 0, cb_luma_mult = 0, cb_offset = 0, cr_mult = 0, cr_luma_mult = 0, cr_offset = 0;
    uint8_t y_pts[16][2] = {{0}}, cb_pts[16][2] = {{0}}, cr_pts[16][2] = {{0}};
    uint8_t ar_y[24] = {0}, ar_cb[25] = {0}, ar_cr[25] = {0};
};

struct FrameHdr {
    int show_existing = 0, frame_to_show = 0, frame_type = 0, show_frame = 0, showable = 0, error_res = 0;
    int intra = 0, disable_cdf_update = 0, allow_sct = 0, force_int_mv = 0, frame_size_override = 0, order_hint = 0, primary_ref = 7;
    int refresh_flags = 0, ref_idx[7] = {0};
    int frame_w = 0, frame_h = 0, upscaled_w = 0, render_w = 0, render_h = 0, use_superres = 0, superres_denom = 8;
    int allow_intrabc = 0, allow_hp_mv = 0, filter_switchable = 0, interp_filter = 0, motion_mode_switchable = 0, use_ref_frame_mvs = 0;
    int disable_frame_end_update_cdf = 0;
    int mi_cols = 0, mi_rows = 0;
    // tiles
    int uniform_tiles = 0, tile_cols = 1, tile_rows = 1, tile_cols_log2 = 0, tile_rows_log2 = 0, ctx_update_tile_id = 0, tile_size_bytes = 4;
    int min_log2_tile_cols = 0, max_log2_tile_cols = 0, min_log2_tile_rows = 0, max_log2_tile_rows = 0;
    // quant
    int base_q_idx = 0, dq_y_dc = 0, dq_u_dc = 0, dq_u_ac = 0, dq_v_dc = 0, dq_v_ac = 0, using_qmatrix = 0, qm_y = 0, qm_u = 0, qm_v = 0;
    int seg_enabled = 0, seg_update_map = 0, seg_temporal = 0, seg_update_data = 0;
    int seg_feature_en[8][8] = {{0}}, seg_feature_data[8][8] = {{0}};
    int delta_q_present = 0, delta_q_res = 0, delta_lf_present = 0, delta_lf_res = 0, delta_lf_multi = 0;
    int coded_lossless = 0, all_lossless = 0;
    int lf_level[4] = {0}, lf_sharp = 0, lf_delta_enabled = 0, lf_delta_update = 0, lf_ref_deltas[8] = {1, 0, 0, 0, -1, 0, -1, -1}, lf_mode_deltas[2] = {0};
    int cdef_damping = 3, cdef_bits = 0, cdef_y_pri[8] = {0}, cdef_y_sec[8] = {0}, cdef_uv_pri[8] = {0}, cdef_uv_sec[8] = {0};
    int lr_type[3] = {0}, uses_lr = 0, lr_unit_shift = 0, lr_uv_shift = 0;
    int tx_mode_select = 0, reference_select = 0, skip_mode_allowed = 0, skip_mode_present = 0, allow_warped = 0, reduced_tx_set = 0;
    int gm_type[8] = {0}; int32_t gm_params[8][6];
    FilmGrain fg;
    // bookkeeping
    size_t header_bits = 0;   // bits consumed by uncompressed_header()
};

struct ObuInfo { int type; int temporal_id, spatial_id; int has_size; size_t offset, header_len, payload_len; };

struct FrameRecord {          // one coded (or shown-existing) frame inside a temporal unit
    FrameHdr h;
    int obu_type = 0;         // OBU_FRAME(6) / OBU_FRAME_HEADER(3)
    int ntiles_seen = 0;
    bool complete = false;
    std::vector<uint32_t> tile_sizes;
    size_t tile_bytes = 0;
};

struct TuReport {
    std::vector<ObuInfo> obus;
    std::vector<FrameRecord> frames;
    std::vector<std::vector<uint8_t>> seq_hdr_payloads; // raw sequence header OBUs (full OBU bytes) met in this TU
    int shown_frames = 0;       // show_frame=1 frames + show_existing headers
    int obus_after_shown = 0;   // OBUs (other than padding) after the displayed frame finished
    std::vector<std::string> errors; // syntax errors (first error usually aborts)
};

class Parser {
public:
    SeqHdr seq;
    // Parse one temporal unit (packet). Returns report; keeps reference state across calls.
    TuReport parse_tu(const uint8_t *data, size_t len);
    void reset();
    // state exposed for oracles
    struct RefSlot { bool valid = false; int frame_type = 0, order_hint = 0, upscaled_w = 0, frame_w = 0, frame_h = 0, render_w = 0, render_h = 0, mi_cols = 0, mi_rows = 0, bit_depth = 0, subx = 0, suby = 0;
        int32_t gm[8][6]; int lf_ref_deltas[8]; int lf_mode_deltas[2]; int seg_en[8][8]; int seg_data[8][8]; FilmGrain fg; int showable = 0; int order_hints[8]; };
    RefSlot ref[8];
private:
    bool parse_seq(const uint8_t *p, size_t n, std::string &err);
    bool parse_frame_header(struct BitR &br, FrameHdr &h, std::string &err);
    bool parse_tile_group(struct BitR &br, FrameRecord &fr, size_t obu_payload_len, size_t start_byte_in_payload, std::string &err);
    void finish_frame(const FrameHdr &h);
    bool seen_frame_header_ = false;
    FrameHdr cur_;
    bool have_cur_ = false;
};

// helpers for oracles
int qindex_of_qp(int qp);          // AV1 quantizer_to_qindex table (public, from libaom/AV1 tools)
int tile_log2(int blk, int target);
const char *frame_type_name(int t);

} // namespace obu
