"""Remaining checks (registered on import)."""
import copy, random, os, json, time
from . import core, gen, props
from .core import Violation, run_case, pmap, log
from .engine import Check, EVALUATORS, evaluator
from .props import single_violations, relabel, make_diff_evaluator, out_key, diff_detail
from .checks import check, CHECKS, BASE_CFG, run_batch, probes_enc, _default_key

ENC_ASSUME = ['sampled configurations/contents/schedules, not all', 'reference decoder ABIs are hand-declared and probed at setup (dav1d 1.0.0, libaom 3.6.0)']

def mk(ck, cfgo, cont, n, wh=(64, 64), g=None, sim=None, machine=None, oracles=None, mem=None, extra=None):
    cfg = dict(BASE_CFG); cfg.update(cfgo); cfg['source_width'], cfg['source_height'] = wh
    twopass = cfg.pop('_twopass', 0)
    gg = {'n': n}; gg.update(g or {})
    c = gen.enc_case(cfg, cont, gg, sim=sim, machine=machine or {'cores': max(2, min(cfg.get('logical_processors', 4), 64)), 'sockets': 1}, oracles=oracles, mem=mem, extra=extra)
    if twopass:   # a first-pass session (statistics out) followed by the second-pass session (statistics in) in one application
        c['program'] = gen.two_pass_program(n, recon=bool(cfg.get('recon_enabled'))); c['_gen'] = None; c['_twopass'] = 1
    return c

def run_families(ck, prop, evalname, fams, variant, adopt=('TERM',)):
    flat = [c for fam in fams for c in fam]
    rs = pmap(lambda c: run_case(c, variant), flat, variant=variant)
    i = 0; allrs = []
    for fam in fams:
        frs = rs[i:i + len(fam)]; i += len(fam); allrs += frs
        b = frs[0]
        for c, r in zip(fam, frs):
            ck.ev.add_run(c, r, _default_key(c, r))
            vs = single_violations(c, r, variant)
            for v in relabel(vs, prop, adopt):
                ck.add(v, 'single')
            if r.get('outcome') != 'ok' and not any(v.prop in adopt for v in vs):
                ck.ev.notes.append('run not evaluable: %s %s' % (r.get('outcome'), r.get('site')))
        if b.get('outcome') != 'ok':
            continue
        for c, r in zip(fam[1:], frs[1:]):
            if r.get('outcome') == 'ok' and out_key(r) != out_key(b):
                kind, det = diff_detail(b, r)
                ck.add(Violation(prop, 'DIFF', kind, det, c, variant, family=[fam[0], c]), evalname)
    return allrs

# ======================================================================================================
# C01 / C02 / C18 / C19 / C20 / C26 share "swarm of single runs with property-specific oracles"
C01_CORPUS = [
    ({}, {'kind': 'mix', 'seed': 3}, 10, (64, 64)),
    ({'encoder_bit_depth': 10}, {'kind': 'mix', 'seed': 4}, 6, (64, 64)),
    ({'tile_columns': 1, 'tile_rows': 1, 'enc_mode': 6}, {'kind': 'moving', 'seed': 5}, 8, (128, 128)),
    ({'super_block_size': 128, 'enc_mode': 5}, {'kind': 'moving', 'seed': 6}, 6, (192, 128)),
    ({'film_grain_denoise_strength': 10}, {'kind': 'grainy', 'seed': 7, 'val': 64}, 5, (64, 64)),
    ({'film_grain_denoise_strength': 30, 'hierarchical_levels': 3}, {'kind': 'grainy', 'seed': 17, 'hold': 2}, 7, (128, 128)),
    ({'hierarchical_levels': 3, 'enable_overlays': 1, 'enc_mode': 6}, {'kind': 'moving', 'seed': 8}, 18, (64, 64)),
    ({'pred_structure': 1, 'enc_mode': 7}, {'kind': 'mix', 'seed': 9}, 7, (72, 66)),
    ({'screen_content_mode': 1, 'enc_mode': 6, 'palette_level': 6, 'intrabc_mode': 1}, {'kind': 'text', 'seed': 10}, 5, (128, 64)),
    ({'enable_restoration_filtering': 1, 'cdef_level': 1, 'enc_mode': 4}, {'kind': 'hgrad', 'seed': 11}, 4, (128, 128)),
    # screen content in which regions appear and disappear: blocks of later pictures sit next to positions that held palette / intra-block-copy blocks in an earlier picture coded in the same pooled picture control set
    ({'screen_content_mode': 1, 'enc_mode': 8, 'logical_processors': 2}, {'kind': 'text_flash', 'seed': 20}, 17, (192, 128)),
    ({'screen_content_mode': 1, 'enc_mode': 6, 'hierarchical_levels': 3, 'logical_processors': 1}, {'kind': 'text_flash', 'seed': 21}, 12, (256, 192)),
    ({'intra_period_length': 3, 'intra_refresh_type': 2}, {'kind': 'mix', 'seed': 12}, 11, (64, 64)),
    # two-pass encodes (first-pass statistics fed back through rc_twopass_stats_in), constant quality and VBR
    ({'_twopass': 1, 'hierarchical_levels': 3, 'intra_period_length': 15}, {'kind': 'moving', 'seed': 18}, 14, (64, 64)),
    ({'_twopass': 1, 'rate_control_mode': 1, 'target_bit_rate': 200000, 'hierarchical_levels': 4, 'intra_period_length': 15}, {'kind': 'rails', 'seed': 19}, 20, (72, 66)),
    # tool interactions across tile boundaries: per-tile state (restoration references, CDF contexts, palette/intrabc caches) with
    # several tile rows *and* columns while the in-loop filters are really in use
    ({'tile_rows': 1, 'tile_columns': 0, 'enable_restoration_filtering': 1, 'cdef_level': 1, 'enc_mode': 6}, {'kind': 'noise', 'seed': 13}, 5, (192, 256)),
    ({'tile_rows': 1, 'tile_columns': 1, 'enable_restoration_filtering': 1, 'enc_mode': 5}, {'kind': 'moving', 'seed': 14}, 6, (256, 256)),
    ({'tile_rows': 2, 'tile_columns': 1, 'enc_mode': 6, 'screen_content_mode': 1, 'palette_level': 6}, {'kind': 'text', 'seed': 15}, 4, (256, 256)),
    ({'tile_rows': 0, 'tile_columns': 2, 'enable_restoration_filtering': 1, 'enc_mode': 6, 'super_block_size': 64}, {'kind': 'hgrad', 'seed': 16}, 4, (512, 128)),
]

def swarm_cases(ck, tier, nq, nt, oracles, corpus, fields_quick=gen.SAFE, kinds=None, nrange=(1, 12), force=None, sizes_small=True, vary=None):
    rng = ck.rng; cases = []
    for (cfgo, cont, n, wh) in corpus:
        cfgo = dict(cfgo); long_ = cfgo.pop('_long', 0)
        c = mk(ck, dict(cfgo, **(force or {})), cont, n, wh, oracles=dict(oracles, decode=0, recon_compare=0) if long_ else oracles, sim=gen.schedule(rng, allow_buggify=False) if not long_ else {'policy': 'np', 'seed': 1})
        if long_: c['wall_timeout'] = 3000; c['sim']['step_limit'] = 400000000
        cases.append(c)
    for i in range(nq if tier == 'quick' else nt):
        cfgo = gen.swarm_cfg(rng, fields=fields_quick if tier == 'quick' else None, nmax=5 if tier == 'quick' else 7)
        if force: cfgo.update(force)
        if vary: vary(rng, cfgo)
        wh = gen.size(rng, small=True)
        if tier != 'quick' and rng.random() < 0.05: wh = gen.size(rng, small=False)
        n = rng.randint(*nrange)
        cases.append(mk(ck, cfgo, gen.content(rng, kinds=kinds, n=n), n, wh, g={'pacing': rng.choice(['each', 'every_k', 'random'])}, sim=gen.schedule(rng, allow_buggify=False), machine=gen.machine(rng), oracles=oracles))
    return cases

def accepted_only(ck, cases, rs):
    """set_parameter decides the quantifier: rejected configurations are outside it"""
    keep = []
    for c, r in zip(cases, rs):
        h = r.get('history', [])
        rej = [x for x in h if x[1] in ('set_param', 'init') and x[2] != 0]
        if rej:
            ck.ev.probe('config_rejected_by_library')
        else:
            keep.append((c, r))
    return keep

def single_check(prop, tier, seed, oracles, corpus, nq, nt, rule, variant='plain', adopt=('TERM', 'CRASH'), kinds=None, nrange=(1, 12), force=None, fields_quick=gen.SAFE, level='exploration', post=None, vary=None):
    ck = Check(prop, tier, seed, level)
    ck.ev.rule = rule; ck.ev.components = core.COMPONENTS_ENC; ck.ev.assumptions = list(ENC_ASSUME)
    core.build(variant)
    rounds = 0
    while True:
        cases = swarm_cases(ck, tier, nq, nt if rounds == 0 else nt, oracles, corpus if rounds == 0 else [], fields_quick, kinds, nrange, force, vary=vary)
        rs = pmap(lambda c: run_case(c, variant), cases, variant=variant)
        for c, r in zip(cases, rs):
            h = r.get('history', [])
            if any(x[1] in ('set_param',) and x[2] != 0 for x in h):
                ck.ev.probe('config_rejected_by_library'); ck.ev.evaluations += 1; continue
            ck.ev.add_run(c, r, _default_key(c, r))
            vs = single_violations(c, r, variant)
            for v in relabel(vs, prop, adopt):
                ck.add(v, 'single')
            if r.get('outcome') != 'ok' and not any(v.prop in adopt for v in vs):
                ck.ev.probe('runs_not_evaluable'); ck.ev.notes.append('run not evaluable: %s %s %s' % (r.get('outcome'), r.get('site'), (r.get('detail') or '')[:100]))
            if post: post(ck, c, r)
        probes_enc(ck, rs)
        rounds += 1
        if tier == 'quick' or rounds >= ck.rounds:
            break
    return ck.finish()

@check('C01')
def check_c01(tier, seed):
    return single_check('C01', tier, seed, {'decode': 1, 'parse': 1, 'recon_compare': 1, 'aom': 1, 'order': 0}, C01_CORPUS, 110, 300,
        'whole-encoder simulated runs (seeded schedule, machine, heap poison) over a configuration swarm x content recipes x sizes x lengths; oracle: dav1d decodes every packet to exactly one picture equal sample-for-sample to the recon with that pts, libaom must agree with dav1d; non-trivial = completed run with >=1 packet decoded; distinct = distinct cases')

C02_CORPUS = C01_CORPUS + [
    # longer than the 2048-slot packetization reorder queue: every slot (and the small per-slot bitstream that holds a show-existing header) is used a second time
    ({'hierarchical_levels': 4, 'enc_mode': 8, 'logical_processors': 2, 'recon_enabled': 0, '_long': 1}, {'kind': 'mix', 'seed': 24}, 2120, (64, 64)),
    ({'hierarchical_levels': 5, 'enc_mode': 7}, {'kind': 'mix', 'seed': 21}, 40, (64, 64)),
    ({'hierarchical_levels': 3, 'pred_structure': 0, 'enc_mode': 7}, {'kind': 'mix', 'seed': 22}, 12, (64, 64)),
    ({'intra_period_length': 7, 'intra_refresh_type': 1, 'hierarchical_levels': 3}, {'kind': 'mix', 'seed': 23}, 20, (64, 64)),
]
@check('C02')
def check_c02(tier, seed):
    return single_check('C02', tier, seed, {'decode': 0, 'parse': 1, 'order': 0}, C02_CORPUS, 120, 400,
        'same simulated runs as C01; oracle: independent OBU parser on every packet (temporal delimiter first, OBU sizes tile the packet, exactly one displayed frame and nothing after it, sequence header before first frame and at every key frame, byte-identical copies and equal to the stream-header API, pic_type consistent with the carried frame: KEY <=> shown key frame, NON_REF never referenced later); distinct = distinct cases', nrange=(1, 24))

# ---- C03 ---------------------------------------------------------------------------------------------------
@check('C03')
def check_c03(tier, seed):
    ck = Check('C03', tier, seed)
    ck.ev.rule = ('histories: N submitted pictures (every N in 0..Nmax for rotating GOP settings) x pts sequences (0.., offset, gaps, negative, >2^32) x EOS styles (separate empty buffer / flag on last picture) x pacing; '
                  'oracle: FIFO model (k-th packet carries k-th pts and app-private token, dts==pts, exactly the last packet has EOS, nothing after it, recon set == submitted set with one EOS, dav1d decodes exactly N pictures); '
                  'liveness decided by the scheduler (DEADLOCK); distinct = distinct cases')
    ck.ev.components = core.COMPONENTS_ENC; ck.ev.assumptions = list(ENC_ASSUME)
    core.build('plain'); rng = ck.rng
    gops = [{}, {'hierarchical_levels': 3}, {'hierarchical_levels': 5}, {'pred_structure': 1}, {'pred_structure': 0, 'hierarchical_levels': 3}, {'intra_period_length': 5, 'intra_refresh_type': 2}, {'intra_period_length': 8, 'intra_refresh_type': 1},
            # intra periods aligned to the mini-GOP, open-GOP (CRA) and closed-GOP (IDR): the intra picture sits at the base of a complete mini-GOP
            {'intra_period_length': 7, 'intra_refresh_type': 1, 'hierarchical_levels': 3}, {'intra_period_length': 15, 'intra_refresh_type': 1, 'hierarchical_levels': 3}, {'intra_period_length': 7, 'intra_refresh_type': 1, 'hierarchical_levels': 2},
            {'intra_period_length': 15, 'intra_refresh_type': 1, 'hierarchical_levels': 4}, {'intra_period_length': 7, 'intra_refresh_type': 2, 'hierarchical_levels': 3}, {'intra_period_length': 15, 'intra_refresh_type': 2, 'hierarchical_levels': 4},
            {'enable_overlays': 1, 'hierarchical_levels': 3, 'enc_mode': 6}, {'look_ahead_distance': 17, 'enable_tpl_la': 1}, {'hierarchical_levels': 2}, {'intra_period_length': 0}, {'look_ahead_distance': 0, 'enable_tpl_la': 0}]
    nmax = 34 if tier == 'quick' else 70
    cases = []
    for n in range(0, nmax + 1):
        reps = 2 if tier == 'quick' else 3
        for _ in range(reps):
            g = dict(rng.choice(gops)); g['enc_mode'] = g.get('enc_mode', 8); g['logical_processors'] = rng.choice([1, 2, 4])
            style = rng.random(); pts = None
            if style < 0.25: off = rng.choice([1, 1000, 2**32 + 5, -50]); pts = [off + i for i in range(n)]
            elif style < 0.4: step = rng.choice([2, 3, 1001]); pts = [i * step for i in range(n)]
            elif style < 0.47 and n > 2: pts = [i * rng.choice([2, 3, 1001]) for i in range(n)]; ck.ev.probe('non_monotonic_pts')   # not strictly increasing
            # EOS is signalled the documented way (a separate empty buffer, as the reference application and the GStreamer plug-in do)
            # "none" (nothing retrieved before EOS) is only legal while the output pools last: longer streams block in send_picture by design (back-pressure, C27)
            gg = {'pacing': rng.choice(['each', 'each', 'random', 'every_k', 'none' if n <= 6 else 'each']), 'eos': 'separate', 'pts': pts, 'pseed': rng.randint(0, 999)}
            cases.append(mk(ck, g, gen.content(rng, kinds=['mix', 'moving', 'flat'], n=n), n, (64, 64), g=gg, sim=gen.schedule(rng, allow_buggify=(tier != 'quick')), oracles={'decode': 1, 'parse': 0, 'recon_compare': 0, 'order': 1}))
    # streams that end exactly on, just before and just after a base-layer picture (the last picture closes / does not close a mini-GOP): with overlays or
    # alt-refs the last temporal unit then carries two pictures with the end-of-sequence mark travelling on one of them
    for g0 in [{'enable_overlays': 1, 'hierarchical_levels': 3, 'enc_mode': 6}, {'enable_overlays': 1, 'hierarchical_levels': 4}, {'enable_overlays': 1, 'hierarchical_levels': 2, 'recon_enabled': 0},
               {'hierarchical_levels': 3}, {'hierarchical_levels': 4, 'intra_period_length': 16}, {'pred_structure': 1, 'hierarchical_levels': 3}]:
        mg = 1 << g0['hierarchical_levels']
        for n in sorted(set([mg, mg + 1, mg + 2, 2 * mg + 1, 2 * mg + 2] + ([3 * mg + 1] if tier != 'quick' else []))):
            g = dict(g0); g['enc_mode'] = g.get('enc_mode', 8); g['logical_processors'] = rng.choice([1, 2, 4])
            cases.append(mk(ck, g, gen.content(rng, kinds=['mix', 'moving'], n=n), n, (64, 64), g={'pacing': rng.choice(['each', 'random']), 'eos': 'separate', 'pseed': rng.randint(0, 999)}, sim=gen.schedule(rng, allow_buggify=False), oracles={'decode': 1, 'parse': 0, 'recon_compare': 0, 'order': 1})); ck.ev.probe('minigop_boundary_length')
    rs = run_batch(ck, cases, 'plain', 'C03', ('TERM',))
    for c, r in zip(cases, rs):
        if c['_gen'].get('pts'): ck.ev.probe('non_default_pts')
        if c['_gen'].get('eos') == 'flag': ck.ev.probe('eos_flag_on_last_picture')
        if c['_gen']['n'] == 0: ck.ev.probe('empty_stream')
    probes_enc(ck, rs)
    return ck.finish()

# ---- C05 ---------------------------------------------------------------------------------------------------
make_diff_evaluator('C05', 'diff_C05', adopt=('TERM', 'CRASH'))
@check('C05')
def check_c05(tier, seed):
    ck = Check('C05', tier, seed)
    ck.ev.rule = ('family = one (content, size, preset, tiles, bit depth) x simulated machines (cores 1..64, sockets 1-2, /proc/cpuinfo normal / without physical id / missing) x logical_processors x unpin x target_socket, '
                  'all under the canonical non-preemptive schedule plus one random schedule; oracle: byte-identical packets and recon across the family for every setting set_parameter accepts; distinct = distinct cases')
    ck.ev.components = core.COMPONENTS_ENC; ck.ev.assumptions = list(ENC_ASSUME) + ['pinning itself (pthread_setaffinity_np) is recorded and not applied: the simulated machine decides the thread/segment geometry']
    core.build('plain'); rng = ck.rng
    bases = [({'enc_mode': 8}, {'kind': 'mix', 'seed': 3}, 8, (192, 192)), ({'enc_mode': 6, 'tile_columns': 1}, {'kind': 'moving', 'seed': 5}, 6, (256, 192)),
             ({'enc_mode': 7, 'encoder_bit_depth': 10}, {'kind': 'mix', 'seed': 7}, 5, (192, 128)),
             # every preset has its own tool set (per-thread caches, rate-estimation updates, pool-dependent paths): cover the slower ones too
             ({'enc_mode': 5}, {'kind': 'moving', 'seed': 9}, 6, (192, 128)), ({'enc_mode': 4}, {'kind': 'moving', 'seed': 11}, 5, (128, 128)),
             ({'enc_mode': 5}, {'kind': 'mix', 'seed': 194937}, 8, (256, 192)), ({'enc_mode': 6}, {'kind': 'grainy', 'seed': 13}, 7, (256, 192))]   # the first of these is the family that exposes seeded/C05
    if tier != 'quick':
        bases += [({'enc_mode': m}, {'kind': 'moving', 'seed': 20 + m}, 5, (192, 128)) for m in (0, 1, 2, 3)]
    nexp = 5 if tier == 'quick' else 24
    for i in range(nexp):
        bases.append((gen.swarm_cfg(rng, fields=[f for f in gen.SAFE if f != 'logical_processors'], nmax=3), gen.content(rng, kinds=['mix', 'moving', 'noise']), rng.randint(3, 8), (rng.choice([192, 256, 320]), rng.choice([192, 256]))))
    K = 8 if tier == 'quick' else 16
    fams = []
    for (cfgo, cont, n, wh) in bases:
        cfgo = dict(cfgo); cfgo['logical_processors'] = 1
        base = mk(ck, cfgo, cont, n, wh, machine={'cores': 4, 'sockets': 1}, oracles={'decode': 0, 'parse': 0})
        fam = [base]
        for k in range(K):
            c = copy.deepcopy(base); m = gen.machine(rng)
            if rng.random() < 0.12: m['cpuinfo'] = rng.choice([1, 2])
            c['machine'] = m
            if k < 4:   # the pool/segment geometry changes at core-count thresholds: always straddle them
                c['cfg']['logical_processors'] = [2, 4, 6, 12][k]; m['cores'] = max(m['cores'], c['cfg']['logical_processors'])
            else:
                c['cfg']['logical_processors'] = rng.choice([0, 1, 2, 3, 4, 6, 8, 16, m['cores']])
            if rng.random() < 0.3: c['cfg']['unpin'] = rng.choice([0, 1])
            if rng.random() < 0.3: c['cfg']['target_socket'] = rng.choice([-1, 0, 1] if m['sockets'] > 1 else [-1, 0])
            if rng.random() < 0.4: c['sim'] = gen.schedule(rng, allow_buggify=False)
            fam.append(c)
            if m.get('cpuinfo'): ck.ev.probe('degenerate_cpuinfo')
            if m['sockets'] > 1: ck.ev.probe('dual_socket')
        fams.append(fam)
    rs = run_families(ck, 'C05', 'diff_C05', fams, 'plain', adopt=('TERM', 'CRASH'))
    probes_enc(ck, rs)
    return ck.finish()

# ---- C06 ---------------------------------------------------------------------------------------------------
make_diff_evaluator('C06', 'diff_C06', adopt=('TERM', 'CRASH'))
CPU_LEVELS = {'C': 0, 'SSE2': 0x7, 'SSSE3': 0x1f, 'SSE4_1': 0x3f, 'AVX2': 0x1ff, 'ALL': 0xffff}
C06_SIZES = [(64, 64), (72, 72), (80, 88), (88, 72), (96, 104), (104, 80), (112, 120), (120, 96), (66, 70), (76, 68), (132, 100), (160, 136), (192, 152), (256, 72), (144, 184), (200, 88), (416, 248), (90, 74), (128, 128), (176, 144)]
@check('C06')
def check_c06(tier, seed):
    ck = Check('C06', tier, seed)
    ck.ev.rule = ('family = one (configuration, content, picture size) x use_cpu_flags in {C only, ..SSE2, ..SSSE3, ..SSE4_1, ..AVX2} on the plain build and {ALL (AVX-512 kernels, ENABLE_AVX512=ON), ..AVX2, C} on the sanitizer build; '
                  'kernels differ per block size and per width/height remainder, so the families sweep picture sizes over the residue classes of width mod 64 / height mod 16 (incl. widths that are not multiples of 8) and rotate presets (each preset selects other kernels: sub-sampled HME, NSQ shapes, transform sizes), bit depths and contents; '
                  'one process per variant (dispatch tables are process-global); oracle: byte-identical packets and recon; distinct = distinct cases')
    ck.ev.components = core.COMPONENTS_ENC; ck.ev.assumptions = list(ENC_ASSUME) + ['this is a configuration differential executed inside the simulator; schedules are fixed (np)']
    core.build('plain'); core.build('asan'); rng = ck.rng
    # part A: plain build, all levels up to AVX2, size sweep
    levels = ['AVX2', 'C', 'SSE2', 'SSSE3', 'SSE4_1']
    sizes = list(C06_SIZES) + [(h, w) for (w, h) in C06_SIZES if w != h and w <= 256]; rng.shuffle(sizes)   # transposed sizes: other residue combinations
    if tier != 'quick':
        sizes += [(rng.randrange(64, 320, 2), rng.randrange(64, 260, 2)) for _ in range(40)] + [gen.size(rng, small=False) for _ in range(3)]
    presets = [8, 6, 7, 5, 8, 4, 6, 8, 7, 5] if tier == 'quick' else [8, 7, 6, 5, 4, 3, 2, 8, 6, 4]
    fams = []
    for k, wh in enumerate(sizes):
        cfgo = {'enc_mode': presets[k % len(presets)], 'logical_processors': 1}
        if k % 5 == 3: cfgo['encoder_bit_depth'] = 10
        if k % 7 == 2: cfgo.update({'screen_content_mode': 1, 'enc_mode': max(cfgo['enc_mode'], 6)})
        if tier != 'quick' and k >= 2 * len(C06_SIZES): cfgo.update(gen.swarm_cfg(rng, fields=gen.SAFE, nmax=3)); cfgo['logical_processors'] = 1
        cont = {'kind': 'text' if cfgo.get('screen_content_mode') else rng.choice(['moving', 'moving', 'mix', 'noise', 'checker', 'grainy']), 'seed': rng.randint(1, 999)}
        n = 3 if cfgo['enc_mode'] >= 6 else 2
        fams.append([mk(ck, dict(cfgo, use_cpu_flags=CPU_LEVELS[lv]), cont, n, wh, oracles={'decode': 0, 'parse': 0}) for lv in levels])
        ck.ev.probe('width_mod_64=%d' % (wh[0] % 64)); ck.ev.probe('height_mod_16=%d' % (wh[1] % 16))
    run_families(ck, 'C06', 'diff_C06', fams, 'plain', adopt=('TERM', 'CRASH'))
    # part B: sanitizer build (the only one that contains the AVX-512 kernels)
    bases = [({'enc_mode': 8, 'logical_processors': 1}, {'kind': 'noise', 'seed': 3}, 3, (64, 64)), ({'enc_mode': 6, 'logical_processors': 1, 'encoder_bit_depth': 10}, {'kind': 'max', 'seed': 5}, 2, (64, 64)),
             ({'enc_mode': 5, 'logical_processors': 1}, {'kind': 'moving', 'seed': 7}, 3, (72, 66)), ({'enc_mode': 7, 'logical_processors': 1}, {'kind': 'moving', 'seed': 9}, 3, (88, 72))]
    for i in range(1 if tier == 'quick' else 14):
        cfgo = gen.swarm_cfg(rng, fields=gen.SAFE, nmax=4); cfgo['logical_processors'] = 1
        bases.append((cfgo, gen.content(rng, kinds=['noise', 'checker', 'max', 'zero', 'moving', 'mix', 'hgrad']), rng.randint(2, 4), gen.size(rng)))
    fams = []
    for (cfgo, cont, n, wh) in bases:
        fams.append([mk(ck, dict(cfgo, use_cpu_flags=CPU_LEVELS[lv]), cont, n, wh, oracles={'decode': 0, 'parse': 0}) for lv in (['ALL', 'AVX2', 'C'] if tier == 'quick' else ['ALL', 'AVX2', 'SSE4_1', 'C'])])
    run_families(ck, 'C06', 'diff_C06', fams, 'asan', adopt=('TERM', 'CRASH'))
    return ck.finish()

# ---- C13 ---------------------------------------------------------------------------------------------------
make_diff_evaluator('C13', 'diff_C13', adopt=('CRASH', 'TERM'))
@check('C13')
def check_c13(tier, seed):
    ck = Check('C13', tier, seed)
    ck.ev.rule = ('family = one (explicit settings, content) x prior contents of the caller-owned EbSvtAv1EncConfiguration before svt_av1_enc_init_handle (zero, 0xFF, 0xAA, seeded random, left over from a maximally non-default configuration) x heap poison byte; '
                  'oracle: set_parameter accepts in every variant and packets/recon are byte-identical to the zero-fill variant; crashes count (the defaults must be usable); distinct = distinct cases')
    ck.ev.components = core.COMPONENTS_ENC; ck.ev.assumptions = list(ENC_ASSUME)
    variant = 'asan' if tier == 'quick' else 'plain'
    core.build(variant); rng = ck.rng
    bases = [({'logical_processors': 1}, {'kind': 'mix', 'seed': 3}, 4, (64, 64)),
             # features that consume *other* defaulted fields once they are switched on (the application sets the switch, not the sub-parameters)
             ({'logical_processors': 1, 'use_fixed_qindex_offsets': 1, 'qindex_offsets': [0, 8, 16, 24, 32, 40], 'key_frame_qindex_offset': -8, 'hierarchical_levels': 3}, {'kind': 'moving', 'seed': 5}, 6, (64, 64)),
             ({'logical_processors': 1, 'rate_control_mode': 2, 'target_bit_rate': 300000}, {'kind': 'moving', 'seed': 7}, 6, (64, 64)),
             # long enough for the rate controller's buffer model to act (buffer sizes, initial/optimal levels and bias percentages are all defaulted fields)
             ({'logical_processors': 1, 'rate_control_mode': 2, 'target_bit_rate': 100000, 'intra_period_length': 15, 'recon_enabled': 0}, {'kind': 'rails', 'seed': 8}, 30, (64, 64)),
             ({'logical_processors': 1, 'rate_control_mode': 1, 'target_bit_rate': 200000, 'intra_period_length': 31, 'recon_enabled': 0}, {'kind': 'noise', 'seed': 10}, 40, (64, 64)),
             ({'logical_processors': 1, 'screen_content_mode': 1, 'enc_mode': 6}, {'kind': 'text', 'seed': 9}, 3, (128, 64))]
    for i in range(4 if tier == 'quick' else 12):
        cfgo = gen.swarm_cfg(rng, fields=gen.SAFE, nmax=3); cfgo['logical_processors'] = rng.choice([1, 2])
        bases.append((cfgo, gen.content(rng, kinds=['mix', 'moving']), rng.randint(2, 6), gen.size(rng)))
    fams = []
    for (cfgo, cont, n, wh) in bases:
        base = mk(ck, cfgo, cont, n, wh, oracles={'decode': 0, 'parse': 0}, mem={'poison': 0})
        base['cfg_prefill'] = 'zero'; fam = [base]
        for pf in ['ff', 'aa', 'rand', 'rand', 'prev', 'zero']:
            c = copy.deepcopy(base); c['cfg_prefill'] = pf; c['cfg_prefill_seed'] = rng.randint(1, 10**6); c['mem'] = {'poison': rng.choice([0, 0xa5, 0xff, 0x7f])}; fam.append(c)
            ck.ev.fault('caller_garbage:' + pf); ck.ev.fault('heap_poison')
        fams.append(fam)
    # rate-control families run on the sanitizer-free build: on the sanitizer build the recorded out-of-bounds table read of the VBR/CVBR feedback
    # (KF-C11-vbr-qp-table-overflow) ends those runs before they have produced anything to compare
    rcf = [f for f in fams if f[0]['cfg'].get('rate_control_mode')]; nrc = [f for f in fams if not f[0]['cfg'].get('rate_control_mode')]
    core.build('plain')
    rs = run_families(ck, 'C13', 'diff_C13', nrc, variant, adopt=('CRASH', 'TERM')) + run_families(ck, 'C13', 'diff_C13', rcf, 'plain', adopt=('CRASH', 'TERM'))
    fams = nrc + rcf
    # rejected configuration in a variant is a violation too (accepted in the zero variant)
    i = 0
    for fam in fams:
        frs = rs[i:i + len(fam)]; i += len(fam)
        acc0 = all(x[2] == 0 for x in frs[0].get('history', []) if x[1] in ('set_param', 'init'))
        for c, r in zip(fam[1:], frs[1:]):
            acc = all(x[2] == 0 for x in r.get('history', []) if x[1] in ('set_param', 'init'))
            if acc0 and not acc and r.get('outcome') == 'ok':
                ck.add(Violation('C13', 'ORACLE', 'rejected_with_prefill', 'configuration accepted with zeroed caller memory is rejected with prefill %s' % c['cfg_prefill'], c, variant, family=[fam[0], c]), 'accept_C13')
    return ck.finish()

@evaluator('accept_C13')
def eval_accept_c13(cases, variant):
    rs = pmap(lambda c: run_case(c, variant), cases); vs = []
    acc = [all(x[2] == 0 for x in r.get('history', []) if x[1] in ('set_param', 'init')) for r in rs]
    if acc[0] and not acc[1] and rs[1].get('outcome') == 'ok':
        vs.append(Violation('C13', 'ORACLE', 'rejected_with_prefill', 'configuration accepted with zeroed caller memory is rejected with prefill %s' % cases[1]['cfg_prefill'], cases[1], variant, family=cases))
    return vs, rs

# ---- C21 ---------------------------------------------------------------------------------------------------
make_diff_evaluator('C21', 'diff_C21', adopt=('CRASH',))
@check('C21')
def check_c21(tier, seed):
    ck = Check('C21', tier, seed)
    ck.ev.rule = ('family = one content x caller buffer layouts: tight stride with zero padding (reference); stride +1..+64 and extra rows with seeded garbage in the padding; whole buffer overwritten with garbage and freed immediately after send_picture returns '
                  '(ASan turns any later library read into a report); one buffer reused for all pictures vs fresh buffers; sizes not multiple of 8; 8-bit and 10-bit; oracle: byte-identical packets/recon, no sanitizer report; distinct = distinct cases')
    ck.ev.components = core.COMPONENTS_ENC; ck.ev.assumptions = list(ENC_ASSUME)
    variant = 'asan'; core.build(variant); rng = ck.rng
    bases = [({'logical_processors': 2}, {'kind': 'mix', 'seed': 3}, 5, (64, 64)), ({'logical_processors': 1, 'encoder_bit_depth': 10}, {'kind': 'moving', 'seed': 5}, 3, (72, 66)),
             # widths/heights that are not multiples of 8: the library pads the picture to a multiple of the minimum block size itself - with what?
             ({'logical_processors': 1}, {'kind': 'moving', 'seed': 7}, 4, (70, 66)), ({'logical_processors': 2, 'enc_mode': 6}, {'kind': 'mix', 'seed': 9}, 3, (132, 68)), ({'logical_processors': 1, 'encoder_bit_depth': 10}, {'kind': 'mix', 'seed': 11}, 3, (66, 76))]
    for i in range(4 if tier == 'quick' else 10):
        cfgo = gen.swarm_cfg(rng, fields=['enc_mode', 'hierarchical_levels', 'tf_level', 'encoder_bit_depth', 'look_ahead_distance'], nmax=2); cfgo['logical_processors'] = rng.choice([1, 2, 4])
        bases.append((cfgo, gen.content(rng, kinds=['mix', 'moving', 'noise']), rng.randint(2, 6), gen.size(rng)))
    fams = []
    for (cfgo, cont, n, wh) in bases:
        base = mk(ck, cfgo, cont, n, wh, oracles={'decode': 0, 'parse': 0}); fam = [base]
        for k in range(4 if tier == 'quick' else 7):
            c = copy.deepcopy(base); cc = c['content']
            kind = ['pad', 'scribble', 'reuse', 'pad_scribble', 'rows', 'pad', 'scribble'][k % 7]
            if 'pad' in kind:   # the three planes have independent pitches
                cc['stride_pad'] = rng.choice([0, 1, 2, 7, 16, 33, 64]); cc['stride_pad_c'] = rng.choice([0, 1, 3, 8, 32]); cc['stride_pad_cr'] = rng.choice([0, 1, 2, 5, 16, 40]); cc['pad_garbage'] = 1; cc['garbage_seed'] = rng.randint(1, 10**6); ck.ev.fault('stride_padding_garbage')
                if cc['stride_pad_c'] != cc['stride_pad_cr']: ck.ev.probe('cb_stride!=cr_stride')
            if 'scribble' in kind: cc['scribble'] = 1; cc['garbage_seed'] = rng.randint(1, 10**6); ck.ev.fault('scribble_and_free_after_send')
            if kind == 'reuse': cc['reuse_buffer'] = 1; cc['scribble'] = 1; ck.ev.fault('buffer_reuse')
            if kind == 'rows': cc['extra_rows'] = rng.choice([1, 2, 8]); cc['pad_garbage'] = 1; ck.ev.fault('garbage_rows_below')
            c['sim'] = {'policy': 'starve', 'starve_mod': 1, 'starve_rem': 0, 'seed': rng.randint(1, 10**6)} if rng.random() < 0.5 else gen.schedule(rng, allow_buggify=False)  # app first: overwrite precedes every pipeline stage
            fam.append(c)
        fams.append(fam)
    run_families(ck, 'C21', 'diff_C21', fams, variant, adopt=('CRASH',))
    return ck.finish()

# ---- C27 ---------------------------------------------------------------------------------------------------
make_diff_evaluator('C27', 'diff_C27', adopt=('CRASH',))
@check('C27')
def check_c27(tier, seed):
    ck = Check('C27', tier, seed)
    ck.ev.rule = ('family = one (configuration, content) x application call patterns: drain after every send (reference, must complete: liveness decided by the scheduler), after every k sends, only after EOS, random polling, polls separated by seeded app-task stalls, '
                  'recon polled or not; oracle: every program that completes yields byte-identical packets and recon; a program that legitimately blocks (never drains) is classified did-not-complete, not a violation; distinct = distinct cases')
    ck.ev.components = core.COMPONENTS_ENC; ck.ev.assumptions = list(ENC_ASSUME)
    core.build('plain'); rng = ck.rng
    bases = [({'logical_processors': 2}, {'kind': 'mix', 'seed': 3}, 12, (64, 64)), ({'logical_processors': 4, 'hierarchical_levels': 3, 'enc_mode': 7}, {'kind': 'moving', 'seed': 5}, 20, (64, 64)),
             # decisions that look at pictures *beyond* the current mini-GOP (temporal filtering windows, look-ahead, scene-change delay) can see more or fewer of them
             # depending on how far ahead of the encoder the application is: short mini-GOPs (few past pictures), slow presets (wide windows), many analysis threads
             ({'logical_processors': 8, 'hierarchical_levels': 2, 'enc_mode': 4, 'recon_enabled': 0, '_wide': 1}, {'kind': 'pan', 'seed': 7}, 40, (64, 64)),
             ({'logical_processors': 16, 'hierarchical_levels': 1, 'enc_mode': 4, 'recon_enabled': 0, '_wide': 1}, {'kind': 'pan', 'seed': 7}, 40, (64, 64)),
             ({'logical_processors': 4, 'hierarchical_levels': 0, 'enc_mode': 5, 'recon_enabled': 0}, {'kind': 'moving', 'seed': 11}, 18, (64, 64))]
    for i in range(8 if tier == 'quick' else 20):
        cfgo = gen.swarm_cfg(rng, fields=['enc_mode', 'hierarchical_levels', 'look_ahead_distance', 'enable_tpl_la', 'pred_structure', 'intra_period_length'], nmax=3); cfgo['logical_processors'] = rng.choice([1, 2, 4])
        bases.append((cfgo, gen.content(rng, kinds=['mix', 'moving']), rng.randint(4, 30), (64, 64)))
    fams = []
    for (cfgo, cont, n, wh) in bases:
        cfgo = dict(cfgo); wide = cfgo.pop('_wide', 0)
        base = mk(ck, cfgo, cont, n, wh, g={'pacing': 'each'}, machine={'cores': max(2, cfgo.get('logical_processors', 4)), 'sockets': 1}, oracles={'decode': 0, 'parse': 0, 'order': 1}); fam = [base]
        for _ in range(6 if wide else 0):   # more relative speeds for the configurations with wide temporal windows
            cw = copy.deepcopy(base); cw['sim'] = gen.schedule(rng, horizon=600 * n, nthreads=30 + 4 * cfgo.get('logical_processors', 4), allow_buggify=False); fam.append(cw)
        for pacing, extra in [('every_k', {'k': rng.randint(2, 7)}), ('random', {'pseed': rng.randint(1, 999)}), ('random', {'pseed': rng.randint(1, 999), 'stall': rng.randint(1, 300)}), ('none', {}), ('each', {'stall': rng.randint(50, 2000)})][:4 if tier == 'quick' else 5]:
            c = gen.regen(base, pacing=pacing, **extra); c['sim'] = gen.schedule(rng, allow_buggify=False); fam.append(c)
            if pacing in ('every_k', 'random'):
                # a slow application: between any two of its steps (also in the middle of an API call) the library runs until it has nothing left to do
                c2 = copy.deepcopy(c); c2['sim'] = {'policy': 'starve', 'starve_tid': 0, 'seed': rng.randint(1, 10**6)}; fam.append(c2); ck.ev.fault('slow_application')
        # the same drain-after-every-send program under the two extreme relative speeds: a slow application (the library finishes everything it can between two
        # application steps) and a fast one (every library thread is starved: the application runs whenever it can, so pictures pile up in front of the encoder)
        c3 = copy.deepcopy(base); c3['sim'] = {'policy': 'starve', 'starve_tid': 0, 'seed': rng.randint(1, 10**6)}; fam.append(c3); ck.ev.fault('slow_application')
        c4 = copy.deepcopy(base); c4['sim'] = {'policy': 'starve', 'starve_mod': 1, 'starve_rem': 0, 'seed': rng.randint(1, 10**6)}; fam.append(c4); ck.ev.fault('fast_application')
        c5 = gen.regen(base, pacing='every_k', k=rng.choice([4, 8])); c5['sim'] = {'policy': 'starve', 'starve_mod': 1, 'starve_rem': 0, 'seed': rng.randint(1, 10**6)}; fam.append(c5); ck.ev.fault('fast_application')
        fams.append(fam)
    flat = [c for fam in fams for c in fam]
    rs = pmap(lambda c: run_case(c, 'plain'), flat, variant='plain'); i = 0
    for fam in fams:
        frs = rs[i:i + len(fam)]; i += len(fam); b = frs[0]
        for k, (c, r) in enumerate(zip(fam, frs)):
            ck.ev.add_run(c, r, _default_key(c, r))
            if r.get('outcome') in props.TERMINATION:
                if c['_gen'].get('pacing') == 'each':   # the application drains after each submission: must complete
                    ck.add(Violation('C27', r['outcome'], r.get('site', ''), 'drain-after-every-send program did not complete: ' + (r.get('detail') or '')[:300], c, 'plain'), 'single27')
                else:
                    ck.ev.probe('program_did_not_complete(back-pressure)')
            for v in relabel(single_violations(c, r, 'plain'), 'C27', ('CRASH',)):   # a call pattern that makes the library crash is pacing-dependent behaviour
                ck.add(v, 'single')
        if b.get('outcome') != 'ok': continue
        for c, r in zip(fam[1:], frs[1:]):
            if r.get('outcome') == 'ok' and out_key(r) != out_key(b):
                kind, det = diff_detail(b, r); ck.add(Violation('C27', 'DIFF', kind, det, c, 'plain', family=[fam[0], c]), 'diff_C27')
    # liveness sweep: "completes whenever the application drains after each submission" over the pipeline routes whose pools are sized
    # differently (GOP depth x core count x look-ahead/TPL/rate control/overlays/recon) with streams long enough (several mini-GOPs,
    # EOS at every phase of the mini-GOP) that every pool is recycled; the scheduler decides DEADLOCK exactly
    live = []
    extras = [{}, {'enable_overlays': 1}, {'pred_structure': 1}, {'recon_enabled': 1}, {'intra_period_length': 40}, {'intra_period_length': 95, 'intra_refresh_type': 1}, {'enable_tpl_la': 0},
              {'rate_control_mode': 1, 'intra_period_length': 63}, {'rate_control_mode': 2, 'intra_period_length': 31, 'recon_enabled': 1}, {'enable_tpl_la': 0, 'look_ahead_distance': 50}, {'tile_columns': 1, 'tile_rows': 1}]
    combos = [(hl, cores, e) for hl in (2, 3, 4, 5) for cores in (1, 2, 3, 4, 8) for e in extras]
    rng.shuffle(combos)
    for k, (hl, cores, e) in enumerate(combos[:40] if tier == 'quick' else combos * 2):
        cfg = dict({'recon_enabled': 0, 'hierarchical_levels': hl, 'logical_processors': 0}, **e); n = rng.choice([33, 60, 61, 77, 90, 130]) + rng.randint(0, 3)
        wh = (256, 128) if e.get('tile_columns') else (64, 64)
        sim = {'policy': 'np', 'seed': 1} if k % 2 == 0 else gen.schedule(rng, allow_buggify=False, api_stall=0)
        live.append(mk(ck, cfg, {'kind': 'mix', 'seed': rng.randint(1, 99)}, n if not e.get('tile_columns') else 20, wh, g={'pacing': 'each'}, sim=sim, machine={'cores': cores, 'sockets': 1}, oracles={'decode': 0, 'parse': 0, 'order': 1}))
    rs = pmap(lambda c: run_case(c, 'plain'), live, variant='plain')
    for c, r in zip(live, rs):
        ck.ev.add_run(c, r, _default_key(c, r)); ck.ev.probe('liveness_sweep_runs')
        if r.get('outcome') in props.TERMINATION:
            ck.add(Violation('C27', r['outcome'], r.get('site', ''), 'drain-after-every-send program did not complete: ' + (r.get('detail') or '')[:300], c, 'plain'), 'single27')
        for v in relabel(single_violations(c, r, 'plain'), 'C27', ('CRASH',)):
            ck.add(v, 'single')
    return ck.finish()

@evaluator('single27')
def eval_single27(cases, variant):
    rs = pmap(lambda c: run_case(c, variant), cases); vs = []
    for c, r in zip(cases, rs):
        if r.get('outcome') in props.TERMINATION and (c.get('_gen') or {}).get('pacing') == 'each':
            vs.append(Violation('C27', r['outcome'], r.get('site', ''), 'drain-after-every-send program did not complete: ' + (r.get('detail') or '')[:300], c, variant))
    return vs, rs

# ---- C11 ---------------------------------------------------------------------------------------------------
C11_CORPUS = [
    ({'qp': 0, 'logical_processors': 1}, {'kind': 'noise', 'seed': 3}, 3, (64, 64)),
    ({'qp': 63, 'logical_processors': 1}, {'kind': 'noise', 'seed': 4}, 3, (66, 70)),
    ({'qp': 0, 'enable_qp_scaling_flag': 0, 'logical_processors': 2, 'enc_mode': 6}, {'kind': 'checker', 'seed': 5}, 2, (128, 72)),
    ({'min_qp_allowed': 30, 'max_qp_allowed': 30, 'rate_control_mode': 1, 'target_bit_rate': 100000, 'logical_processors': 1}, {'kind': 'rails', 'seed': 6}, 10, (64, 64)),
    ({'tile_columns': 2, 'tile_rows': 2, 'logical_processors': 4, 'enc_mode': 7}, {'kind': 'moving', 'seed': 7}, 4, (256, 256)),
    ({'encoder_bit_depth': 10, 'logical_processors': 1, 'enc_mode': 7}, {'kind': 'max', 'seed': 8}, 3, (70, 66)),
    ({'screen_content_mode': 1, 'logical_processors': 1, 'enc_mode': 6}, {'kind': 'text', 'seed': 9}, 3, (96, 64)),
    ({'film_grain_denoise_strength': 50, 'logical_processors': 1}, {'kind': 'grainy', 'seed': 10}, 3, (128, 128)),
    ({'superres_mode': 1, 'superres_denom': 12, 'superres_kf_denom': 12, 'logical_processors': 1, 'enc_mode': 6}, {'kind': 'moving', 'seed': 11}, 3, (128, 128)),
]
C11_CORPUS += [({'_twopass': 1, 'rate_control_mode': 1, 'target_bit_rate': 100000, 'intra_period_length': 15, 'logical_processors': 2, 'recon_enabled': 0}, {'kind': 'rails', 'seed': 31}, 18, (64, 64)),
               ({'_twopass': 1, 'qp': 55, 'hierarchical_levels': 3, 'logical_processors': 1, 'recon_enabled': 0}, {'kind': 'noise', 'seed': 32}, 10, (66, 70))]
# rate-control routes: every (mode, intra period incl. "never", look-ahead, TPL) combination selects other branches of the rate-control kernel
C11_CORPUS += [({'rate_control_mode': rc, 'target_bit_rate': tbr, 'intra_period_length': ip, 'look_ahead_distance': lad, 'enable_tpl_la': tpl, 'logical_processors': 2, 'recon_enabled': 0},
                {'kind': kind, 'seed': 20 + rc * 7 + ip}, 12, (64, 64))
               for rc in (1, 2) for (ip, kind, tbr) in ((-1, 'moving', 100000), (7, 'rails', 300000), (31, 'mix', 50000)) for (lad, tpl) in ((0, 1), (17, 1), (17, 0), (0, 0))]
@check('C11')
def check_c11(tier, seed):
    return single_check('C11', tier, seed, {'decode': 0, 'parse': 1, 'order': 0, 'api_errors': 1}, C11_CORPUS, 36, 300,
        'whole-encoder runs on the ASan + arithmetic-UBSan build with traps armed (exit/abort/assert/signals), corner configurations (qp 0/63, min==max qp, incompressible noise, odd sizes, tiles, superres, film grain, screen content, 10-bit) plus a configuration swarm; '
        'oracle: no sanitizer report, no trapped exit/abort, no error packet, no API error, termination decided by the scheduler; distinct = distinct cases', variant='asan', adopt=('TERM', 'CRASH'), nrange=(1, 6))

# ---- C18 / C19 / C20 / C26 -----------------------------------------------------------------------------------
@check('C18')
def check_c18(tier, seed):
    ck = Check('C18', tier, seed)
    ck.ev.rule = ('rate_control_mode 0/1/2 x enable_qp_scaling_flag x (min,max) qp pairs incl. min==max x fixed qindex offsets x content driving RC to the rails (noise/flat/noise); oracle on the independently parsed base_q_idx of every coded frame: '
                  'qidx(min_qp) <= q <= qidx(max_qp) for RC modes, q == qidx(qp) for fixed QP without scaling; distinct = distinct cases')
    ck.ev.components = core.COMPONENTS_ENC; ck.ev.assumptions = list(ENC_ASSUME)
    core.build('plain'); rng = ck.rng; cases = []
    def add(cfgo, kind, n):
        cfgo = dict(cfgo); cfgo.setdefault('logical_processors', rng.choice([1, 2]))
        c = mk(ck, cfgo, {'kind': kind, 'seed': rng.randint(1, 999), 'val': rng.choice([16, 128, 235])}, n, (64, 64), oracles={'decode': 0, 'parse': 1, 'qbounds': 1, 'order': 0}, sim=gen.schedule(rng, allow_buggify=False))
        if not cfgo.get('rate_control_mode') and not (cfgo.get('min_qp_allowed', 0) <= cfgo.get('qp', 30) <= cfgo.get('max_qp_allowed', 63)): c['_qp_outside_bounds'] = 1
        cases.append(c)
    for qp in ([0, 1, 2, 11, 20, 31, 43, 52, 62, 63] if tier == 'quick' else range(0, 64, 3)):
        offs = rng.choice([[0] * 6, [0, 4, 8, 12, 16, 20], [-8, -4, 0, 4, 8, 12], [40, 40, 40, 40, 40, 40], [-60, 0, 60, 0, -60, 0], [4, 8, 12, 16, 20, 24], [-40, -32, -24, -16, -8, -4], [200, 100, 50, 25, 12, 6]])
        add({'qp': qp, 'use_fixed_qindex_offsets': 1, 'qindex_offsets': offs, 'key_frame_qindex_offset': rng.choice([0, -12, 20]), 'rate_control_mode': 0, 'hierarchical_levels': rng.choice([2, 3, 4]), 'intra_period_length': -1}, rng.choice(['mix', 'noise', 'rails']), rng.randint(9, 20))
    for (mn, mx) in ([(1, 63), (20, 20), (10, 30), (40, 63), (0, 5), (30, 31), (5, 50), (60, 63), (0, 0), (33, 47)] if tier == 'quick' else [(rng.randint(0, 40), 0) for _ in range(40)]):
        if mx == 0: mx = rng.randint(mn, 63)
        for rc in (1, 2):
            add({'rate_control_mode': rc, 'min_qp_allowed': mn, 'max_qp_allowed': mx, 'target_bit_rate': rng.choice([20000, 200000, 5000000]), 'look_ahead_distance': rng.choice([0, 17]), 'enc_mode': 8}, rng.choice(['rails', 'noise', 'flat', 'moving']), rng.randint(8, 26))
            # both rails on purpose: a starved budget on incompressible content (rate control wants the coarsest quantizer) and a lavish one on flat content (the finest)
            add({'rate_control_mode': rc, 'min_qp_allowed': mn, 'max_qp_allowed': mx, 'target_bit_rate': 10000, 'look_ahead_distance': 0, 'enc_mode': 8, 'intra_period_length': 15}, 'noise', 20)
            add({'rate_control_mode': rc, 'min_qp_allowed': mn, 'max_qp_allowed': mx, 'target_bit_rate': 8000000, 'look_ahead_distance': 17, 'enc_mode': 8, 'intra_period_length': 15}, 'rails', 24)
    for qp in ([10, 30, 50, 63] if tier == 'quick' else [5, 20, 35, 50, 63]):
        add({'qp': qp, 'enable_qp_scaling_flag': 1, 'rate_control_mode': 0, 'max_qp_allowed': rng.choice([63, 63, 50])}, rng.choice(['mix', 'rails']), rng.randint(5, 12))
    for (mn, mx, tbr) in ([(10, 50, 200000), (30, 30, 50000), (1, 20, 20000), (45, 63, 3000000)] if tier == 'quick' else [(rng.randint(0, 40), 0, rng.choice([20000, 200000, 3000000])) for _ in range(16)]):
        if mx == 0: mx = rng.randint(mn, 63)
        add({'_twopass': 1, 'rate_control_mode': 1, 'min_qp_allowed': mn, 'max_qp_allowed': mx, 'target_bit_rate': tbr, 'intra_period_length': 15, 'recon_enabled': 0}, rng.choice(['rails', 'moving', 'noise']), rng.randint(12, 24)); ck.ev.probe('two_pass_vbr')
    rs = run_batch(ck, cases, 'plain', 'C18', ('TERM', 'CRASH'))   # a run that crashes or hangs cannot have honoured the configured quantizer
    for c, r in zip(cases, rs):
        ck.ev.probe('rc_mode_%d' % c['cfg'].get('rate_control_mode', 0))
    return ck.finish()

@check('C19')
def check_c19(tier, seed):
    ck = Check('C19', tier, seed)
    ck.ev.rule = ('intra_period_length in {-1,0,1,..} x intra_refresh_type {1,2} x hierarchical levels x overlays x stream lengths around multiples of P+1, scene-change detection off; oracle 1: display positions carrying intra-coded frames are exactly {k(P+1)} '
                  '(shown KEY frames for IDR); oracle 2: a fresh dav1d fed from any packet with a shown key frame yields exactly the full-stream pictures for those positions; distinct = distinct cases')
    ck.ev.components = core.COMPONENTS_ENC; ck.ev.assumptions = list(ENC_ASSUME)
    core.build('plain'); rng = ck.rng; cases = []
    periods = [-1, 0, 1, 2, 3, 4, 5, 7, 8, 11, 15, 16, 23, 31] if tier == 'quick' else [-1] + list(range(0, 34))
    for P in periods:
        for irt in (1, 2):
            hl = rng.choice([2, 3, 4]) if tier == 'quick' else rng.choice([0, 1, 2, 3, 4, 5])
            for hl in ([hl, rng.choice([0, 1, 2, 3, 4])] if tier == 'quick' else [hl]):
                n = max(3, min(40, (P + 1) * rng.randint(2, 3) + rng.randint(0, 2))) if P >= 0 else rng.randint(5, 20)
                cfgo = {'intra_period_length': P, 'intra_refresh_type': irt, 'hierarchical_levels': hl, 'scene_change_detection': 0, 'logical_processors': rng.choice([1, 2]), 'enc_mode': 8}
                if rng.random() < 0.15: cfgo['enable_overlays'] = 1; cfgo['enc_mode'] = 6
                cases.append(mk(ck, cfgo, gen.content(rng, kinds=['mix', 'moving'], n=n), n, (64, 64), oracles={'decode': 1, 'parse': 1, 'recon_compare': 0, 'intra_place': 1, 'suffix': 1, 'order': 0}, sim=gen.schedule(rng, allow_buggify=False)))
    # long intra periods: counters that track the position inside the period (and their saturation limits: 255, 1024, 2048) are only exercised by streams longer than the period
    for P in ([1029] if tier == 'quick' else [254, 255, 256, 1023, 1024, 1025, 2050]):
        for irt in ((2,) if tier == 'quick' else (1, 2)):
            n = P + 8
            c = mk(ck, {'intra_period_length': P, 'intra_refresh_type': irt, 'hierarchical_levels': 3, 'scene_change_detection': 0, 'logical_processors': 2, 'enc_mode': 8, 'recon_enabled': 0}, {'kind': 'mix', 'seed': rng.randint(1, 999)}, n, (64, 64),
                   oracles={'decode': 1, 'parse': 1, 'recon_compare': 0, 'intra_place': 1, 'suffix': 1, 'order': 0}, sim={'policy': 'np', 'seed': 1}); c['wall_timeout'] = 2000; c['sim']['step_limit'] = 400000000
            cases.append(c); ck.ev.probe('long_intra_period')
    rs = run_batch(ck, cases, 'plain', 'C19', ('TERM', 'CRASH'))   # a crash or hang for some (period, refresh type) places no intra frames at all
    for r in rs:
        if r.get('suffix_checked'): ck.ev.probe('random_access_points_checked', r['suffix_checked'])
    probes_enc(ck, rs)
    return ck.finish()

@check('C26')
def check_c26(tier, seed):
    # the statistics are computed inside the pipeline (restoration kernel) on the encoder's own reconstruction: whether that reconstruction is
    # complete depends on who else needs it (recon output on/off, reference / non-reference picture, restoration on/off, CDEF on/off, tiles)
    def vary(rng, cfgo):
        cfgo['recon_enabled'] = rng.choice([0, 0, 1]); cfgo['encoder_bit_depth'] = rng.choice([8, 8, 8, 10])
    return single_check('C26', tier, seed, {'decode': 1, 'parse': 0, 'recon_compare': 0, 'sse': 1, 'order': 0},
        [({'stat_report': 1}, {'kind': 'mix', 'seed': 3}, 10, (64, 64)), ({'stat_report': 1, 'tf_level': 0}, {'kind': 'moving', 'seed': 4}, 9, (72, 66)), ({'stat_report': 1, 'hierarchical_levels': 3, 'enable_overlays': 1, 'enc_mode': 6}, {'kind': 'moving', 'seed': 5}, 18, (64, 64)),
         ({'stat_report': 1, 'recon_enabled': 0}, {'kind': 'mix', 'seed': 6}, 10, (64, 64)), ({'stat_report': 1, 'recon_enabled': 0, 'enc_mode': 6, 'enable_restoration_filtering': 0}, {'kind': 'moving', 'seed': 7}, 9, (70, 66)),
         ({'stat_report': 1, 'recon_enabled': 0, 'cdef_level': 0, 'hierarchical_levels': 4}, {'kind': 'noise', 'seed': 8}, 17, (64, 64)), ({'stat_report': 1, 'recon_enabled': 0, 'enable_restoration_filtering': 1, 'enc_mode': 5}, {'kind': 'hgrad', 'seed': 9}, 6, (128, 128)),
         ({'stat_report': 1, 'recon_enabled': 0, 'tile_columns': 1, 'tile_rows': 1, 'logical_processors': 4}, {'kind': 'moving', 'seed': 10}, 6, (256, 128)), ({'stat_report': 1, 'recon_enabled': 0, 'pred_structure': 1}, {'kind': 'moving', 'seed': 11}, 8, (66, 70)),
         ({'stat_report': 1, 'disable_dlf_flag': 1, 'recon_enabled': 0}, {'kind': 'mix', 'seed': 12}, 8, (64, 64)),
         ({'stat_report': 1, 'encoder_bit_depth': 10, 'recon_enabled': 0}, {'kind': 'moving', 'seed': 13}, 9, (72, 66)), ({'stat_report': 1, 'encoder_bit_depth': 10, 'hierarchical_levels': 3, 'enc_mode': 6}, {'kind': 'noise', 'seed': 14}, 9, (64, 64))],
        100, 200, 'stat_report=1, 8-bit and 10-bit, sizes incl. non-multiples of 8, temporal filtering on/off, all hierarchical levels, recon output on and off, in-loop filters on/off, tiles; film grain and superres off (the code measures before those stages); oracle: for every packet luma/cb/cr SSE == sum (submitted - dav1d-decoded)^2 over the visible area mod 2^32; distinct = distinct cases',
        force={'stat_report': 1, 'film_grain_denoise_strength': 0, 'superres_mode': 0}, fields_quick=['enc_mode', 'hierarchical_levels', 'tf_level', 'qp', 'logical_processors', 'enable_overlays', 'pred_structure', 'intra_period_length', 'cdef_level', 'enable_restoration_filtering', 'disable_dlf_flag', 'tile_columns', 'tile_rows'], kinds=['mix', 'moving', 'noise', 'hgrad'], vary=vary)

TOOL_SWITCHES = [('disable_dlf_flag', 1, 0, 'noise'), ('cdef_level', 0, 1, 'noise'), ('enable_restoration_filtering', 0, 1, 'noise'), ('palette_level', 0, 6, 'text'), ('intrabc_mode', 0, 1, 'text'),
                 ('enable_global_motion', 0, 1, 'moving'), ('enable_warped_motion', 0, 1, 'moving'), ('obmc_level', 0, 1, 'moving'), ('filter_intra_level', 0, 1, 'hgrad'), ('disable_cfl_flag', 1, 0, 'hgrad'),
                 ('inter_intra_compound', 0, 1, 'moving'), ('superres_mode', 0, 1, 'moving')]
@check('C20')
def check_c20(tier, seed):
    ck = Check('C20', tier, seed)
    ck.ev.rule = ('for each tool switch (DLF, CDEF, restoration, palette, intrabc, global motion, warped motion, OBMC, filter-intra, CfL, inter-intra, superres): off and on variants x presets x screen-content mode on provoking content; '
                  'oracle (off): header level via the independent parser and block level via per-block syntax counters collected while the SVT decoder parses the stream; (on): counters non-zero for some preset, otherwise the tool is marked vacuous; '
                  'tiles: parsed tile log2 values == requested values clipped to the spec limits of the frame size; distinct = distinct cases')
    ck.ev.components = core.COMPONENTS_ENC; ck.ev.assumptions = list(ENC_ASSUME)
    core.build('plain'); rng = ck.rng; cases = []
    presets = [8, 6, 4] if tier == 'quick' else [8, 7, 6, 5, 4, 3]
    for (field, off, on, kind) in TOOL_SWITCHES:
        for pr in presets:
            for val in (off, on):
                cfgo = {field: val, 'enc_mode': pr, 'logical_processors': rng.choice([1, 2])}
                if kind == 'text': cfgo['screen_content_mode'] = rng.choice([1, 2] if tier != 'quick' else [1])
                if field == 'obmc_level' and val == 0: cfgo['enable_warped_motion'] = 0
                # superres with TPL on crashes before a packet is written (KF-C11-superres-tpl, exercised by C11): the on-variant is encoded with
                # TPL off so that the header flag and the tool-usage counters of a superres stream are really observed here
                if field == 'superres_mode' and val: cfgo.update({'superres_denom': 12, 'superres_kf_denom': 12, 'enable_tpl_la': 0})
                n = rng.randint(4, 7)
                cases.append(mk(ck, cfgo, {'kind': kind, 'seed': rng.randint(1, 999)}, n, rng.choice([(64, 64), (128, 64), (96, 96)]), oracles={'decode': 0, 'parse': 1, 'tools': 1, 'tool_usage': 1, 'order': 0}))
    # interactions: a switch must stay off when *other* tools (screen-content tools, palette, intrabc) are active, on content where both would pay off
    for (field, off) in [('disable_cfl_flag', 1), ('filter_intra_level', 0), ('palette_level', 0), ('intrabc_mode', 0), ('disable_dlf_flag', 1), ('cdef_level', 0), ('enable_restoration_filtering', 0)]:
        for pr in ([8, 6, 4] if tier == 'quick' else [8, 7, 6, 5, 4, 3, 2]):
            cfgo = {field: off, 'enc_mode': pr, 'screen_content_mode': 1, 'logical_processors': rng.choice([1, 2])}
            if field != 'palette_level': cfgo['palette_level'] = 6
            if field != 'intrabc_mode' and rng.random() < 0.5: cfgo['intrabc_mode'] = 1
            cases.append(mk(ck, cfgo, {'kind': 'text_cfl', 'seed': rng.randint(1, 999)}, 3, (256, 192) if pr <= 6 else (128, 128), oracles={'decode': 0, 'parse': 1, 'tools': 1, 'tool_usage': 1, 'order': 0}))
    # superblock counts that are and are not powers of two (5x3, 6x5, 3x2 superblocks): the limit of the tile log2 values is a *ceiling* log2 of the superblock count
    tiles = [(tc, tr, wh) for tc in range(0, 5) for tr in range(0, 7) for wh in [(64, 64), (256, 128), (512, 256), (320, 192), (384, 320), (192, 128)]]
    rng.shuffle(tiles)
    for (tc, tr, wh) in tiles[:44 if tier == 'quick' else 210]:
        cases.append(mk(ck, {'tile_columns': tc, 'tile_rows': tr, 'enc_mode': 8, 'logical_processors': 2}, {'kind': 'mix', 'seed': rng.randint(1, 999)}, 2, wh, oracles={'decode': 0, 'parse': 1, 'tools': 1, 'order': 0}))
    rs = run_batch(ck, cases, 'plain', 'C20', ('TERM', 'CRASH'))
    for c, r in zip(cases, rs):
        tu = r.get('tool_usage') or {}
        for k, v in tu.items():
            if v: ck.ev.probe('tool_used:' + k, 1)
        for fl in r.get('frames', []) or []:
            for f in fl:
                if not f['se']:
                    if f['lf'][0]: ck.ev.probe('hdr:dlf_on')
                    if f['cdef_any']: ck.ev.probe('hdr:cdef_on')
                    if any(f['lr']): ck.ev.probe('hdr:lr_on')
                    if f['intrabc']: ck.ev.probe('hdr:intrabc_on')
                    if f['gm_any']: ck.ev.probe('hdr:gm_on')
                    if f['warped']: ck.ev.probe('hdr:warped_on')
                    if f['superres']: ck.ev.probe('hdr:superres_on')
                    if f['ntiles'] > 1: ck.ev.probe('hdr:multi_tile')
    for k in ('tool_used:palette', 'tool_used:intrabc', 'tool_used:filter_intra', 'tool_used:cfl', 'tool_used:interintra', 'tool_used:obmc', 'tool_used:warped', 'hdr:gm_on', 'hdr:lr_on', 'hdr:cdef_on'):
        ck.ev.reach.setdefault(k, 0)
    return ck.finish()

# ---- C22 ---------------------------------------------------------------------------------------------------
@check('C22')
def check_c22(tier, seed):
    ck = Check('C22', tier, seed)
    ck.ev.rule = ('long streams of tiny pictures on the plain build: N beyond 2*2^order_hint_bits (quick) and beyond the 2048-deep reorder queues (thorough) x GOP settings; oracles of C01 (dav1d decode == recon per display position) and C03 (order, pts, EOS); '
                  'the order-hint helper clause (all (bits,a,b)) is a pure function and is not decided by this family; distinct = distinct cases')
    ck.ev.components = core.COMPONENTS_ENC; ck.ev.assumptions = list(ENC_ASSUME)
    core.build('plain'); rng = ck.rng
    gops = [{'hierarchical_levels': 4}, {'hierarchical_levels': 3, 'intra_period_length': 63, 'intra_refresh_type': 1}, {'pred_structure': 1, 'hierarchical_levels': 3}, {'hierarchical_levels': 5, 'intra_period_length': -1}]
    # every circular queue has its own route: the look-ahead (initial rate control) reorder queue is bypassed unless the look-ahead
    # distance is non-zero, i.e. TPL look-ahead off or a rate-control mode on; picture decision/packetization queues are always used
    routes = [{}, {'enable_tpl_la': 0}, {'rate_control_mode': 1, 'target_bit_rate': 200000}, {'enable_tpl_la': 0, 'rate_control_mode': 2, 'target_bit_rate': 300000}, {'enable_tpl_la': 0, 'look_ahead_distance': 60}]
    lens = [300, 2100, 420, 2130, 2075] if tier == 'quick' else [2100, 4200, 2100, 2300, 4150, 2060, 6200, 2049, 2110, 2200]
    cases = []
    for i, n in enumerate(lens):
        g = dict(gops[(i + seed) % len(gops)]); g.update({'enc_mode': 8, 'logical_processors': 2 if i % 3 else 1, 'intra_period_length': g.get('intra_period_length', -1)})
        g.update(routes[i % len(routes)] if tier == 'quick' else routes[(i + i // len(routes)) % len(routes)])
        if g.get('rate_control_mode') and g.get('intra_period_length', -1) < 0: g['intra_period_length'] = 31
        if g.get('rate_control_mode'): g['logical_processors'] = 4   # <=2 with recon is the drain deadlock KF-C27-vbr-recon-drain-deadlock, which short streams show too
        sim = {'policy': 'starve', 'starve_mod': 7, 'starve_rem': rng.randrange(7), 'seed': rng.randint(1, 10**6)} if i % 2 else {'policy': 'np', 'seed': 1}
        c = mk(ck, g, {'kind': 'mix', 'seed': rng.randint(1, 999)}, n, (64, 64), g={'pacing': 'each'}, sim=sim, oracles={'decode': 1, 'parse': 1, 'recon_compare': 1, 'order': 1, 'skip_priv': 1}); c['wall_timeout'] = 3000; c['sim']['step_limit'] = 400000000
        cases.append(c)
    # the order-hint period (128) is crossed without a key frame in reach, at every hierarchy depth (which references straddle the wrap depends on it)
    for hl in ([0, 1, 2, 4] if tier == 'quick' else [0, 1, 2, 3, 4]):
        g = {'hierarchical_levels': hl, 'enc_mode': 8, 'logical_processors': 2, 'intra_period_length': -1}
        c = mk(ck, g, {'kind': 'mix', 'seed': rng.randint(1, 999)}, 190 if tier == 'quick' else 300, (64, 64), g={'pacing': 'each'}, sim={'policy': 'np', 'seed': 1}, oracles={'decode': 1, 'parse': 1, 'recon_compare': 1, 'order': 1, 'skip_priv': 1}); c['wall_timeout'] = 1500; c['sim']['step_limit'] = 100000000
        cases.append(c)
    # "exactly as well as short ones": defects that short streams show too (C02/C03 known findings) are not C22's
    rs = run_batch(ck, cases, 'plain', 'C22', ('C01', 'C03', 'TERM', 'CRASH'))   # a long stream on which the encoder crashes or hangs is not encoded as well as a short one
    for c, r in zip(cases, rs):
        mo = max([f['oh'] for fl in (r.get('frames') or []) for f in fl] + [0])
        if r.get('npackets', 0) > 128: ck.ev.probe('order_hint_wrapped')
        if r.get('npackets', 0) > 2048: ck.ev.probe('reorder_queue_wrapped')
    ck.ev.reach.setdefault('order_hint_wrapped', 0)
    return ck.finish()

# ---- C23 ---------------------------------------------------------------------------------------------------
@check('C23')
def check_c23(tier, seed):
    ck = Check('C23', tier, seed)
    ck.ev.rule = ('W5: real EbSystemResourceManager.c + EbThreads.c with 1-6 objects, 1-4 producers, 1-4 blocking consumers or one non-blocking poller, multi-holder releasers (inc_live_count), shutdown after the workload or early, under the whole schedule-policy swarm; '
                  'oracle: event ledger (object in exactly one of pool / assigned / held / queued / delivered; assign order == post order; return to pool exactly at the last release; no double hand-out) + payload exactly-once and single-consumer order + lost wake-ups decided as DEADLOCK + every consumer returns after shutdown; '
                  'the same ledger runs over the SRM events of whole-encoder runs; non-trivial = >=2 tasks and >=1 delivery; distinct = distinct (decision trace, case)')
    ck.ev.components = {'real': ['EbSystemResourceManager.c', 'EbThreads.c', 'EbMalloc/EbObject macros'], 'stub': ['producers/consumers/releasers (synthetic clients)'], 'simulated': ['pthread/semaphore primitives, scheduler']}
    ck.ev.assumptions = ['interleavings at synchronisation-operation granularity']
    core.build('plain'); rng = ck.rng
    rounds = 0
    while True:
        cases = []
        for i in range(1500 if tier == 'quick' else 3000):
            poller = rng.random() < 0.2
            srm = {'objects': rng.randint(1, 6), 'producers': rng.randint(1, 4), 'consumers': 1 if poller else rng.randint(1, 4), 'per_producer': rng.randint(1, 12), 'poller': int(poller), 'extra_refs': rng.choice([0, 0, 1, 2, 3]), 'releasers': rng.randint(1, 2), 'body_yields': rng.choice([0, 1, 2])}
            if rng.random() < 0.15: srm['early_shutdown_after'] = rng.randint(0, srm['producers'] * srm['per_producer'])
            cases.append({'world': 'srm', 'srm': srm, 'sim': dict(gen.schedule(rng, horizon=800, nthreads=10), step_limit=3000000)})
        rs = pmap(lambda c: run_case(c, 'plain'), cases, jobs=16)
        for c, r in zip(cases, rs):
            ok = r.get('outcome') == 'ok' and r.get('delivered', 0) > 0
            ck.ev.add_run(c, r, (r['sim']['trace_hash'], core.case_hash(c['srm'])) if ok else None)
            for v in relabel(single_violations(c, r, 'plain'), 'C23', ('TERM', 'CRASH')):
                ck.add(v, 'single')
            if c['srm'].get('early_shutdown_after') is not None: ck.ev.fault('early_shutdown')
            if c['srm']['poller']: ck.ev.probe('nonblocking_poller_run')
            e = r.get('events') or {}
            if e.get('nonblocking_empty'): ck.ev.probe('nonblocking_get_found_nothing', e['nonblocking_empty'])
            if e.get('release_hold') is not None and c['srm']['extra_refs']: ck.ev.probe('multi_holder_release')
            if e.get('shutdown_returns'): ck.ev.probe('consumer_returned_on_shutdown', e['shutdown_returns'])
        rounds += 1
        if tier == 'quick' or rounds >= ck.rounds: break
    # memory-access preemption (build variant "mem"): interleavings inside the SRM's critical sections and in whatever it does outside them
    core.build('mem'); mcases = []
    for i in range(600 if tier == 'quick' else 8000):
        poller = rng.random() < 0.2
        srm = {'objects': rng.randint(1, 4), 'producers': rng.randint(1, 3), 'consumers': 1 if poller else rng.randint(1, 3), 'per_producer': rng.randint(1, 8), 'poller': int(poller), 'extra_refs': rng.choice([0, 0, 1, 2]), 'releasers': rng.randint(1, 2), 'body_yields': rng.choice([0, 1])}
        if rng.random() < 0.15: srm['early_shutdown_after'] = rng.randint(0, srm['producers'] * srm['per_producer'])
        mcases.append({'world': 'srm', 'srm': srm, 'wall_timeout': 40, 'sim': dict(gen.schedule(rng, horizon=800, nthreads=10, allow_buggify=False), step_limit=1500000, mem=rng.choice([3, 7, 20, 60]))})
    rs = pmap(lambda c: run_case(c, 'mem'), mcases, jobs=16)
    for c, r in zip(mcases, rs):
        ok = r.get('outcome') == 'ok' and r.get('delivered', 0) > 0
        ck.ev.add_run(c, r, (r['sim']['trace_hash'], core.case_hash(c['srm']), 'mem') if ok else None)
        ck.ev.fault('mem_preemption', (r.get('sim') or {}).get('mem_preemptions', 0)); ck.ev.probe('mem_accesses', (r.get('sim') or {}).get('mem_accesses', 0))
        for v in relabel(single_violations(c, r, 'mem'), 'C23', ('TERM', 'CRASH')):
            ck.add(v, 'single')
    # whole-encoder event traces
    enc = [mk(ck, {'logical_processors': lp, 'enc_mode': 8}, {'kind': 'mix', 'seed': rng.randint(1, 99)}, rng.randint(4, 10), (64, 64), sim=gen.schedule(rng), oracles={'decode': 0, 'parse': 0}) for lp in ([2, 4, 8] if tier == 'quick' else [1, 2, 4, 8, 16] * 6)]
    # object lifetimes differ per pipeline route (who releases PA references / references / input buffers depends on look-ahead, TPL,
    # rate-control mode, overlays, prediction structure): long enough that pooled objects are recycled several times
    routes = [({'rate_control_mode': 1, 'intra_period_length': 31, 'recon_enabled': 0}, 130), ({'rate_control_mode': 2, 'intra_period_length': 15, 'recon_enabled': 0}, 100),
              ({'enable_tpl_la': 0}, 60), ({'enable_tpl_la': 0, 'look_ahead_distance': 40, 'hierarchical_levels': 3}, 90), ({'enable_overlays': 1, 'hierarchical_levels': 3}, 50),
              ({'pred_structure': 1}, 50), ({'pred_structure': 0, 'hierarchical_levels': 3}, 40), ({'hierarchical_levels': 5}, 80), ({'intra_period_length': 7, 'intra_refresh_type': 1}, 50),
              ({'superres_mode': 1, 'superres_denom': 12}, 30), ({'screen_content_mode': 1}, 30), ({'rate_control_mode': 1, 'intra_period_length': 47, 'enable_tpl_la': 0, 'recon_enabled': 0}, 110)]
    for k, (rcfg, n) in enumerate(routes if tier == 'quick' else routes * 3):
        cfg = dict({'logical_processors': rng.choice([1, 2, 4]), 'enc_mode': 8}, **rcfg)
        enc.append(mk(ck, cfg, {'kind': rng.choice(['mix', 'moving']), 'seed': rng.randint(1, 99)}, n, (64, 64), g={'pacing': 'each'}, sim=gen.schedule(rng, allow_buggify=False) if k % 2 else {'policy': 'np', 'seed': 1}, oracles={'decode': 0, 'parse': 0}))
    rs = pmap(lambda c: run_case(c, 'plain'), enc, variant='plain')
    for c, r in zip(enc, rs):
        ck.ev.add_run(c, r, _default_key(c, r)); ck.ev.probe('whole_encoder_srm_events', (r.get('events') or {}).get('srm_events', 0))
        for v in relabel(single_violations(c, r, 'plain'), 'C23', ('TERM',)):
            ck.add(v, 'single')
    return ck.finish()

# ---- C24 ---------------------------------------------------------------------------------------------------
def seg_grids_for(cores, w_sb, h_sb):
    """segment grids load_default_buffer_configuration_settings can produce (mirrors the shape: cols/rows derived from core count and picture size)"""
    out = set()
    for c in (1, 2, 3, 4, 6, 8, 12, 16, 32, 64):
        cols = max(1, min(w_sb, c if c < 6 else 6)); rows = max(1, min(h_sb, c if c < 4 else (c // 2 if c < 16 else 8)))
        out.add((min(cols, 60), min(rows, 37)))
    return sorted(out)

@check('C24')
def check_c24(tier, seed):
    ck = Check('C24', tier, seed)
    ck.ev.rule = ('W6: real enc_dec_segments_ctor/init + assign_enc_dec_segments + SRM feedback FIFO, k worker tasks running the kernel SB iteration with a recording stub as SB body; picture sizes in SBs x segment grids x worker counts x schedules; '
                  'oracle: every SB of the picture visited exactly once, left/upper/upper-right neighbours finished before an SB starts, picture completes for every worker count (no DEADLOCK); thorough sweeps all picture sizes 1..65 x 1..34 SBs for representative grids; '
                  'the same oracle runs on SB_START/SB_END events of whole-encoder runs; distinct = distinct (geometry, grid, workers, decision trace)')
    ck.ev.components = {'real': ['EbEncDecSegments.c', 'assign_enc_dec_segments (EbEncDecProcess.c)', 'EbSystemResourceManager.c', 'EbThreads.c'], 'stub': ['SB coding body (recorder)', 'kernel loop bounds copied from mode_decision_kernel (also checked on real encodes via events)'], 'simulated': ['scheduler']}
    ck.ev.assumptions = ['W6 copies ~20 lines of loop bounds from mode_decision_kernel; the event oracle on real encodes covers the real loop']
    core.build('plain'); rng = ck.rng; cases = []
    def add(w, h, sc, sr, nw, pol=None, pics=2, w2=None, h2=None):
        seg = {'w': w, 'h': h, 'cols': sc, 'rows': sr, 'workers': nw, 'pictures': pics, 'w2': w2 or w, 'h2': h2 or h, 'max_cols': max(sc, 1), 'max_rows': max(sr, 1), 'body_yields': rng.choice([0, 1, 1, 2])}
        cases.append({'world': 'seg', 'seg': seg, 'sim': dict(pol or gen.schedule(rng, horizon=2000, nthreads=nw + 1), step_limit=20000000)})
    if tier == 'quick':
        for i in range(1500):
            w, h = rng.randint(1, 20), rng.randint(1, 14)
            if rng.random() < 0.1: w, h = rng.randint(30, 65), rng.randint(17, 34)
            add(w, h, rng.randint(1, min(8, 60)), rng.randint(1, 8), rng.randint(1, 8), pics=rng.randint(1, 3), w2=rng.randint(1, 20), h2=rng.randint(1, 14))
    else:
        for w in range(1, 66):
            for h in range(1, 35):
                for (sc, sr) in [(1, 1), (3, 2), (6, 8), (6, 4)]:
                    add(w, h, sc, sr, rng.choice([1, 2, 4, 8, 16]), pol={'policy': rng.choice(['np', 'rand', 'rr']), 'sw': 300, 'seed': rng.randint(1, 10**6)}, pics=1)
        for i in range(3000):
            add(rng.randint(1, 65), rng.randint(1, 34), rng.randint(1, 60), rng.randint(1, 37), rng.randint(1, 16), pics=rng.randint(1, 3), w2=rng.randint(1, 65), h2=rng.randint(1, 34))
    rs = pmap(lambda c: run_case(c, 'plain'), cases, jobs=16)
    for c, r in zip(cases, rs):
        ok = r.get('outcome') == 'ok' and r.get('sbs', 0) > 0
        s = c['seg']; ck.ev.add_run(c, r, (s['w'], s['h'], s['cols'], s['rows'], s['workers'], r['sim']['trace_hash']) if ok else None)
        for v in relabel(single_violations(c, r, 'plain'), 'C24', ('TERM', 'CRASH')):
            ck.add(v, 'single')
        e = r.get('events') or {}
        if e.get('seg_max_parallel_sbs', 0) >= 2: ck.ev.probe('parallel_sbs>=2')
        if e.get('seg_multi_segment_pictures'): ck.ev.probe('multi_segment_picture', e['seg_multi_segment_pictures'])
    # memory-access preemption (build variant "mem", DESIGN.md 13.7): forced preemptions between individual loads and stores of the real
    # assign_enc_dec_segments / SRM code, so that an update of the dependency counters or row cursors under the wrong lock (or none) is reachable
    core.build('mem'); mcases = []
    for i in range(500 if tier == 'quick' else 6000):
        w, h = rng.randint(2, 12), rng.randint(2, 10)
        seg = {'w': w, 'h': h, 'cols': rng.randint(1, 6), 'rows': rng.randint(2, 8), 'workers': rng.randint(2, 6), 'pictures': rng.randint(1, 3), 'w2': w, 'h2': h, 'max_cols': 8, 'max_rows': 8, 'body_yields': rng.choice([0, 1])}
        mcases.append({'world': 'seg', 'seg': seg, 'wall_timeout': 40, 'sim': dict(gen.schedule(rng, horizon=2000, nthreads=seg['workers'] + 1, allow_buggify=False), step_limit=1500000, mem=rng.choice([3, 7, 20, 60]))})
    rs = pmap(lambda c: run_case(c, 'mem'), mcases, jobs=16)
    for c, r in zip(mcases, rs):
        ok = r.get('outcome') == 'ok' and r.get('sbs', 0) > 0
        sg = c['seg']; ck.ev.add_run(c, r, (sg['w'], sg['h'], sg['cols'], sg['rows'], sg['workers'], r['sim']['trace_hash'], 'mem') if ok else None)
        ck.ev.fault('mem_preemption', (r.get('sim') or {}).get('mem_preemptions', 0)); ck.ev.probe('mem_accesses', (r.get('sim') or {}).get('mem_accesses', 0))
        for v in relabel(single_violations(c, r, 'mem'), 'C24', ('TERM', 'CRASH')):
            ck.add(v, 'single')
    if tier != 'quick': ck.ev.extra['exhaustive_over'] = 'all picture sizes 1..65 x 1..34 SBs x 4 representative segment grids (one schedule each) + 3000 random (size, grid, workers, schedule)'
    enc = [mk(ck, {'logical_processors': lp, 'enc_mode': 8, 'tile_columns': tc}, {'kind': 'mix', 'seed': rng.randint(1, 99)}, rng.randint(3, 6), wh, sim=gen.schedule(rng, allow_buggify=False), machine={'cores': lp, 'sockets': 1}, oracles={'decode': 0, 'parse': 0})
           for (lp, tc, wh) in ([(4, 0, (256, 192)), (8, 1, (320, 256)), (16, 0, (384, 256)), (2, 0, (352, 288)), (3, 0, (416, 240)), (4, 0, (336, 272)), (2, 0, (208, 144)), (3, 0, (464, 272))]
                                + [(rng.choice([2, 3, 4, 6, 8]), rng.choice([0, 0, 1]), (rng.choice([128, 192, 208, 256, 320, 336, 352, 416, 448, 464]), rng.choice([128, 144, 192, 240, 256, 272, 288]))) for _ in range(4 if tier == 'quick' else 60)])]
    rs = pmap(lambda c: run_case(c, 'plain'), enc, variant='plain')
    for c, r in zip(enc, rs):
        ck.ev.add_run(c, r, _default_key(c, r)); e = r.get('events') or {}
        ck.ev.probe('whole_encoder_sb_events', e.get('seg_sbs', 0))
        if e.get('seg_max_parallel_sbs', 0) >= 2: ck.ev.probe('whole_encoder_parallel_sbs>=2')
        if r.get('outcome') == 'ok' and e.get('seg_incomplete_at_end'):
            ck.add(Violation('C24', 'ORACLE', 'seg_incomplete_at_end', '%d pictures with uncoded SBs at the end of a drained encode' % e['seg_incomplete_at_end'], c, 'plain'), 'single')
        for v in relabel(single_violations(c, r, 'plain'), 'C24', ('TERM',)):
            ck.add(v, 'single')
    return ck.finish()
