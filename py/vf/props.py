"""Per-property oracles and evaluators (single-run and differential)."""
import re, copy
from . import core
from .core import Violation, run_case, pmap
from .engine import evaluator

def norm(s, n=90):
    return re.sub(r'0x[0-9a-f]+|\d+', 'N', s)[:n]

# failure name (prefix) -> property
FAIL_PROP = [
    ('decode_error', 'C01'), ('decode_picture_count', 'C01'), ('recon_mismatch', 'C01'), ('recon_missing', 'C01'), ('recon_duplicate', 'C01'), ('refdec_disagree', 'C01'),
    ('tu_', 'C02'), ('seq_header_', 'C02'), ('stream_header_api_differs', 'C02'), ('pic_type_mismatch', 'C02'),
    ('recon_eos_missing', 'C03'),
    ('error_packet', 'C11'),
    ('srm_', 'C23'), ('seg_', 'C24'), ('sse_mismatch', 'C26'), ('random_access_', 'C19'), ('dec_', 'C08'),
]
def prop_of_failure(name):
    for pre, p in FAIL_PROP:
        if name.startswith(pre):
            return p
    return None

TERMINATION = ('DEADLOCK', 'LIVELOCK', 'STEP_LIMIT', 'HANG')
CRASHES = ('ASAN', 'SIGNAL', 'CRASH', 'TRAP_EXIT', 'TRAP_ABORT', 'TRAP_ASSERT', 'TRAP_ERROR_PACKET', 'TRAP_LIB_ERROR')

def failure_site(f):
    d = f['detail']
    # keep the discriminating words, drop indices
    d = re.sub(r'packet \d+ \(pts -?\d+\)[:,]?', '', d)
    d = re.sub(r'display position \d+ \(pts -?\d+\)[:,]?', '', d)
    d = re.sub(r'\(decision \d+\)', '', d)
    if f['name'] in ('stream_header_api_differs', 'seq_header_differs', 'sse_mismatch'):
        return f['name']
    d = re.sub(r'\b[0-9a-f]{12,}\b', 'H', d)
    return f['name'] + ':' + norm(d.strip(), 70)

def single_violations(case, res, variant):
    """violations visible in one run, labelled by property"""
    out = []
    for f in res.get('failures', []):
        p = prop_of_failure(f['name'])
        if p:
            out.append(Violation(p, 'ORACLE', failure_site(f), f['detail'], case, variant))
    o = res.get('outcome', 'ok')
    if o in TERMINATION:
        out.append(Violation('TERM', o, res.get('site', o.lower()), res.get('detail', ''), case, variant))
    elif o in CRASHES:
        out.append(Violation('CRASH', o, res.get('site', o.lower()), res.get('detail', ''), case, variant))
    elif o not in ('ok',):
        out.append(Violation('HARNESS', o, o, res.get('detail', ''), case, variant))
    for u in res.get('ubsan', []):
        out.append(Violation('C11', 'UBSAN', u, 'undefined arithmetic: ' + u, case, variant))
    if case.get('oracles', {}).get('api_errors'):
        # EbErrorType: 0x80001xxx are errors, 0x7fffffff is EB_ErrorMax (error packet); 0x80002033 (empty queue) and 0x80002034 (fifo shutdown) are not errors
        for x in res.get('history', []):
            v = x[2] & 0xffffffff if isinstance(x[2], int) and x[2] != -9999 else 0
            if x[1] in ('send', 'eos', 'get_packet', 'drain', 'get_recon', 'init', 'stream_header') and (0x80001000 <= v <= 0x80001fff or v == 0x7fffffff):
                out.append(Violation('C11', 'ORACLE', 'api_error:' + x[1], 'API call %s returned error 0x%x during an accepted encode' % (x[1], v), case, variant)); break
    out += c03_oracle(case, res, variant)
    out += c18_oracle(case, res, variant)
    out += c19_oracle(case, res, variant)
    out += c20_oracle(case, res, variant)
    return out

def relabel(vs, prop, accept):
    """pick the violations a property's check is responsible for; TERM/CRASH are adopted when the property's statement covers them"""
    out = []
    for v in vs:
        if v.prop == prop:
            out.append(v)
        elif v.prop in accept:
            ex = dict(v.extra); ex['raw_prop'] = v.prop
            w = Violation(prop, v.cls, v.site, v.detail, v.case, v.variant, ex, v.family); out.append(w)
    return out

# ---- C03: one packet per picture, in order, with timestamps and EOS ----------------------------------------
def c03_oracle(case, res, variant):
    if case.get('world', 'enc') != 'enc' or 'packets' not in res or res.get('outcome') != 'ok':
        return []
    if not case.get('oracles', {}).get('order', 1):
        return []
    g = case.get('_gen') or {}
    sends = [o for o in case['program'] if o['op'] == 'send' and not o.get('null')]
    drained = any(o['op'] == 'drain' for o in case['program'])
    n = len(sends)
    if n == 0 and any(o['op'] == 'eos' for o in case['program']):
        pk = res['packets']
        if not (len(pk) == 0 or (len(pk) == 1 and pk[0]['size'] == 0)):
            return [Violation('C03', 'ORACLE', 'packet_count', 'empty stream (EOS only) produced %d packets' % len(pk), case, variant)]
        return []
    if not drained:
        return []
    exp_pts = [o.get('pts', o.get('i', k)) for k, o in enumerate(sends)]
    pk = res['packets']; V = []
    def bad(site, detail):
        V.append(Violation('C03', 'ORACLE', site, detail, case, variant))
    if len(pk) != n and not (n == 0 and len(pk) == 1 and pk[0]['size'] == 0):
        bad('packet_count', 'submitted %d pictures, received %d packets' % (n, len(pk)))
    increasing = all(b > a for a, b in zip(exp_pts, exp_pts[1:]))
    for k, p in enumerate(pk[:n]):
        if p['pts'] != exp_pts[k]:
            bad('packet_pts_order' if increasing else 'packet_pts_order_nonmonotonic_input', 'packet %d carries pts %d, expected %d (submission order)%s' % (k, p['pts'], exp_pts[k], '' if increasing else '; submitted pts are not strictly increasing')); break
    for k, p in enumerate(pk[:n]):
        if p['dts'] != p['pts']:
            bad('dts_ne_pts', 'packet %d: dts %d != pts %d' % (k, p['dts'], p['pts'])); break
    for k, p in enumerate(pk[:n] if not case.get('oracles', {}).get('skip_priv') else []):
        want = 0x100000 + sends[k].get('i', k)
        if p['priv'] != want:
            bad('app_private', 'packet %d carries p_app_private 0x%x, the picture was submitted with 0x%x' % (k, p['priv'], want)); break
    eos = [k for k, p in enumerate(pk) if p['flags'] & 1]
    if pk and eos != [len(pk) - 1]:
        bad('eos_flag', 'EOS flag on packets %s of %d' % (eos, len(pk)))
    if case['cfg'].get('recon_enabled') and not any(o['op'] == 'drain' and o.get('no_recon') for o in case['program']):
        rc = res.get('recons', [])
        # "one per display position": a recon buffer is identified by its display position, which the library reports either as the
        # submitted pts or as the picture's index in submission order
        rp = sorted(r['pts'] for r in rc)
        if rp != sorted(exp_pts) and rp != list(range(n)):
            bad('recon_set', 'recon positions delivered %s, submitted %d pictures with pts %s' % (rp[:40], n, sorted(exp_pts)[:40]))
        ne = sum(1 for r in rc if r['flags'] & 1)
        if rc and ne != 1:
            bad('recon_eos', '%d recon buffers carry EOS' % ne)
    if 'decoded' in res and res['decoded'] != n and not any(f['name'].startswith('decode_error') for f in res.get('failures', [])):
        bad('decoded_count', 'stream decodes to %d pictures, %d submitted' % (res['decoded'], n))
    # nothing after EOS: polls after the drain returned empty
    hist = res.get('history', [])
    seen_drain = False
    for h in hist:
        if h[1] == 'drain': seen_drain = True
        elif seen_drain and h[1] == 'get_packet' and len(h) > 6 and h[6].get('got', 0) > 0:
            bad('packet_after_eos', 'a packet was delivered after the EOS packet')
    return V

# ---- C18: quantizer bounds -----------------------------------------------------------------------------------
Q2QI = [0, 4, 8, 12, 16, 20, 24, 28, 32, 36, 40, 44, 48, 52, 56, 60, 64, 68, 72, 76, 80, 84, 88, 92, 96, 100, 104, 108, 112, 116, 120, 124, 128, 132, 136, 140, 144, 148, 152, 156, 160, 164, 168, 172, 176, 180, 184, 188, 192, 196, 200, 204, 208, 212, 216, 220, 224, 228, 232, 236, 240, 244, 249, 255]
def c18_oracle(case, res, variant):
    if not case.get('oracles', {}).get('qbounds') or 'frames' not in res:
        return []
    cfg = case['cfg']; V = []
    rc = cfg.get('rate_control_mode', 0); scaling = cfg.get('enable_qp_scaling_flag', 1)
    lo, hi = Q2QI[cfg.get('min_qp_allowed', 1 if rc else 0) if rc else 0], Q2QI[cfg.get('max_qp_allowed', 63)]
    # In this version the only configuration without adaptive QP scaling is use_fixed_qindex_offsets=1 (copy_api_from_app hard-codes
    # enable_qp_scaling_flag=1 otherwise): every frame then uses qindex(qp) + one of the configured offsets, clipped to the bounds
    # (qp 1..63 in fixed-QP mode: lossless coding is not supported).
    fixed = (rc == 0 and cfg.get('use_fixed_qindex_offsets') == 1)
    for pi, fl in enumerate(res['frames']):
        for f in fl:
            if f['se']:
                continue
            q = f['q']
            if fixed:
                offs = list(cfg.get('qindex_offsets', [0] * 6)) + [0] * 6
                clampq = lambda o: min(max(Q2QI[cfg.get('qp', 50)] + o, Q2QI[1]), Q2QI[63])
                allowed = set(clampq(o) for o in offs[:6] + [cfg.get('key_frame_qindex_offset', 0)])
                if q not in allowed:
                    V.append(Violation('C18', 'ORACLE', 'fixed_qp', 'packet %d: base_q_idx %d, fixed QP %d with configured offsets allows %s' % (pi, q, cfg.get('qp', 50), sorted(allowed)), case, variant)); return V
                # which of the configured offsets: inside complete mini-GOPs of the random-access hierarchy the temporal layer of a picture follows from its
                # display position (order hint): position p (1-based inside the mini-GOP of 2^L pictures) is on layer L - trailing_zeros(p)
                L = cfg.get('hierarchical_levels'); n = len(res['frames'])
                if L is not None and cfg.get('pred_structure', 2) == 2 and cfg.get('intra_period_length', -1) == -1 and not cfg.get('enable_overlays') and n <= 120 and f.get('type') == 1:
                    mg = 1 << L; p = f['oh']   # order hint == display position for streams shorter than the order-hint period
                    if 1 <= p <= ((n - 1) // mg) * mg:
                        pos = (p - 1) % mg + 1; tz = (pos & -pos).bit_length() - 1; layer = L - tz
                        if q != clampq(offs[layer]):
                            V.append(Violation('C18', 'ORACLE', 'fixed_qp_layer', 'packet %d: display position %d is on temporal layer %d of a %d-level hierarchy: base_q_idx %d, configured offset %d gives %d' % (pi, p, layer, L, q, offs[layer], clampq(offs[layer])), case, variant)); return V
            elif rc != 0:
                if q < lo or q > hi:
                    V.append(Violation('C18', 'ORACLE', 'rc_bounds', 'packet %d: base_q_idx %d outside [%d,%d] (min_qp %s max_qp %s, rc %d)' % (pi, q, lo, hi, cfg.get('min_qp_allowed'), cfg.get('max_qp_allowed'), rc), case, variant)); return V
            else:
                # CQP with qp scaling: quantizer must stay inside the legal range [qidx(0), qidx(63)] and inside configured max
                if q > hi or q < 0:
                    V.append(Violation('C18', 'ORACLE', 'cqp_bounds', 'packet %d: base_q_idx %d above the index of max_qp %d' % (pi, q, hi), case, variant)); return V
    return V

# ---- C19: intra refresh placement ------------------------------------------------------------------------------
def c19_oracle(case, res, variant):
    if not case.get('oracles', {}).get('intra_place') or 'frames' not in res:
        return []
    cfg = case['cfg']; P = cfg.get('intra_period_length', None); V = []
    if P is None:
        return []
    irt = cfg.get('intra_refresh_type', 1)   # 1: CRA (open GOP, intra-only/fwd key), 2: IDR
    n = len(res['frames'])
    want = {0} if P < 0 else set(range(0, n, P + 1))
    got_intra, got_key = set(), set()
    for pi, fl in enumerate(res['frames']):
        # the shown frame of packet pi (display position pi)
        shown = None
        for f in fl:
            if f['se']:
                shown = ('se', f)
            elif f['show']:
                shown = ('coded', f)
        if not shown:
            continue
        kind, f = shown
        if f['type'] in (0, 2):
            got_intra.add(pi)
        if f['type'] == 0:
            got_key.add(pi)
    if got_intra != want:
        V.append(Violation('C19', 'ORACLE', 'intra_positions', 'intra_period_length %d refresh %d: intra frames shown at positions %s, expected %s' % (P, irt, sorted(got_intra)[:30], sorted(want)[:30]), case, variant))
    elif irt == 2 and got_key != want:
        V.append(Violation('C19', 'ORACLE', 'idr_not_key', 'IDR refresh: shown key frames at %s, expected %s' % (sorted(got_key)[:30], sorted(want)[:30]), case, variant))
    return V

# ---- C20: disabled tools / tiling ---------------------------------------------------------------------------------
def c20_oracle(case, res, variant):
    o = case.get('oracles', {})
    if not o.get('tools') or 'frames' not in res:
        return []
    cfg = case['cfg']; seq = res.get('seq', {}); V = []
    def bad(site, detail):
        V.append(Violation('C20', 'ORACLE', site, detail, case, variant))
    frames = [(pi, f) for pi, fl in enumerate(res['frames']) for f in fl if not f['se']]
    if cfg.get('disable_dlf_flag') == 1:
        for pi, f in frames:
            if f['lf'][0] or f['lf'][1]: bad('dlf_off', 'packet %d: loop filter levels %s with disable_dlf_flag=1' % (pi, f['lf'])); break
    if cfg.get('cdef_level') == 0:
        for pi, f in frames:
            if f['cdef_bits'] or f['cdef_any']: bad('cdef_off', 'packet %d: CDEF strengths signalled with cdef_level=0' % pi); break
    if cfg.get('enable_restoration_filtering') == 0:
        for pi, f in frames:
            if any(f['lr']): bad('lr_off', 'packet %d: loop restoration types %s with enable_restoration_filtering=0' % (pi, f['lr'])); break
    if cfg.get('intrabc_mode') == 0:
        for pi, f in frames:
            if f['intrabc']: bad('intrabc_off', 'packet %d: allow_intrabc=1 with intrabc_mode=0' % pi); break
    if cfg.get('enable_global_motion') == 0:
        for pi, f in frames:
            if f['gm_any']: bad('gm_off', 'packet %d: non-identity global motion with enable_global_motion=0' % pi); break
    if cfg.get('enable_warped_motion') == 0:
        for pi, f in frames:
            if f['warped']: bad('warped_off', 'packet %d: allow_warped_motion=1 with enable_warped_motion=0' % pi); break
    if cfg.get('obmc_level') == 0 and cfg.get('enable_warped_motion') == 0:
        for pi, f in frames:
            if f['mm_switch']: bad('obmc_off', 'packet %d: is_motion_mode_switchable=1 with obmc_level=0 and warped motion off' % pi); break
    if cfg.get('filter_intra_level') == 0 and seq.get('filter_intra'):
        bad('filter_intra_off', 'sequence header enables filter intra with filter_intra_level=0')
    if cfg.get('inter_intra_compound') == 0 and seq.get('interintra'):
        bad('interintra_off', 'sequence header enables inter-intra compound with inter_intra_compound=0')
    if cfg.get('superres_mode', 0) == 0:
        for pi, f in frames:
            if f['superres']: bad('superres_off', 'packet %d: use_superres=1 with superres_mode=0' % pi); break
    # block level counters from the SVT decoder's parse of the stream (hook 5)
    tu = res.get('tool_usage')
    if tu is not None:
        if cfg.get('palette_level') == 0 and tu.get('palette', 0): bad('palette_off', '%d blocks use palette with palette_level=0' % tu['palette'])
        if cfg.get('intrabc_mode') == 0 and tu.get('intrabc', 0): bad('intrabc_off', '%d blocks use intra block copy with intrabc_mode=0' % tu['intrabc'])
        if cfg.get('filter_intra_level') == 0 and tu.get('filter_intra', 0): bad('filter_intra_off', '%d blocks use filter intra with filter_intra_level=0' % tu['filter_intra'])
        if cfg.get('disable_cfl_flag') == 1 and tu.get('cfl', 0): bad('cfl_off', '%d blocks use chroma-from-luma with disable_cfl_flag=1' % tu['cfl'])
        if cfg.get('inter_intra_compound') == 0 and tu.get('interintra', 0): bad('interintra_off', '%d blocks use inter-intra with inter_intra_compound=0' % tu['interintra'])
        if cfg.get('obmc_level') == 0 and tu.get('obmc', 0): bad('obmc_off', '%d blocks use OBMC with obmc_level=0' % tu['obmc'])
        if cfg.get('enable_warped_motion') == 0 and tu.get('warped', 0): bad('warped_off', '%d blocks use local warped motion with enable_warped_motion=0' % tu['warped'])
        if cfg.get('enable_global_motion') == 0 and tu.get('global_mv', 0) and any(f['gm_any'] for _, f in frames): bad('gm_off', 'global motion blocks with enable_global_motion=0')
    # tiles: requested log2 values limited only by the frame size (spec min/max for the frame)
    if 'tile_columns' in cfg or 'tile_rows' in cfg:
        for pi, f in frames:
            wc = min(max(cfg.get('tile_columns', 0), f['min_tcl2']), f['max_tcl2']); wr = min(max(cfg.get('tile_rows', 0), f['min_trl2']), f['max_trl2'])
            if f['uniform'] and (f['tcl2'] != wc or f['trl2'] != wr):
                bad('tiles', 'packet %d: tile log2 cols/rows %d/%d signalled, requested %d/%d (frame limits cols [%d,%d] rows [%d,%d])' % (pi, f['tcl2'], f['trl2'], cfg.get('tile_columns', 0), cfg.get('tile_rows', 0), f['min_tcl2'], f['max_tcl2'], f['min_trl2'], f['max_trl2'])); break
    return V

# ---- evaluators ----------------------------------------------------------------------------------------------------
@evaluator('single')
def eval_single(cases, variant):
    rs = pmap(lambda c: run_case(c, variant), cases)
    vs = []
    for c, r in zip(cases, rs):
        vs += single_violations(c, r, variant)
    return vs, rs

def out_key(r):
    if 'instances' in r:
        return tuple((i.get('stream_hash'), i.get('recon_hash')) for i in r['instances'])
    return (r.get('stream_hash'), r.get('recon_hash'))

def diff_detail(a, b):
    """first differing packet / recon between two results"""
    if 'pictures' in a and 'pictures' in b:   # decoder instances
        qa, qb = a['pictures'], b['pictures']
        first = next((k for k, (x, y) in enumerate(zip(qa, qb)) if x != y), None)
        return 'dec_pictures', 'decoder output: %d vs %d pictures, first differing picture %s' % (len(qa), len(qb), first)
    pa, pb = a.get('packets', []), b.get('packets', [])
    if len(pa) != len(pb):
        return 'count', 'packet count %d vs %d' % (len(pa), len(pb))
    for k, (x, y) in enumerate(zip(pa, pb)):
        if x['hash'] != y['hash']:
            kinds = sorted(set(q['pic_type'] for q, w in zip(pa, pb) if q['hash'] != w['hash']))
            nd = sum(1 for q, w in zip(pa, pb) if q['hash'] != w['hash'])
            # which frame-header fields differ in the differing packets (when both runs were parsed): a root-cause-level discriminator
            hdr = ''
            fa, fb = a.get('frames'), b.get('frames')
            if fa and fb and len(fa) == len(pa) and len(fb) == len(pb):
                fields = set(); same_size = True
                for j, (q, w) in enumerate(zip(pa, pb)):
                    if q['hash'] == w['hash']: continue
                    same_size = same_size and q['size'] == w['size']
                    if len(fa[j]) != len(fb[j]): fields.add('nframes'); continue
                    for u, v2 in zip(fa[j], fb[j]):
                        fields |= set(kk for kk in u if u.get(kk) != v2.get(kk))
                if fields and same_size: hdr = ':hdr[%s]' % ','.join(sorted(fields))
            return ('packets:nonref_only' + hdr if kinds == [4] else 'packets' + hdr), 'first differing packet %d (pts %d, pic_type %d, %d vs %d bytes); %d of %d packets differ; pic_types of differing packets %s' % (k, x['pts'], x['pic_type'], x['size'], y['size'], nd, len(pa), kinds)
    ra = {r['pts']: r['hash'] for r in a.get('recons', [])}; rb = {r['pts']: r['hash'] for r in b.get('recons', [])}
    for pts in sorted(ra):
        if ra[pts] != rb.get(pts):
            return 'recon', 'packets identical, recon for pts %d differs' % pts
    if a.get('recon_hash') != b.get('recon_hash'):
        return 'recon', 'recon sets differ'
    return 'none', ''

def make_diff_evaluator(prop, name, adopt=('TERM',)):
    """family evaluator: cases[0] is the reference; every other member must produce identical output"""
    @evaluator(name)
    def ev(cases, variant):
        rs = pmap(lambda c: run_case(c, variant), cases)
        vs = []
        base = rs[0]
        for c, r in zip(cases, rs):
            vs += relabel(single_violations(c, r, variant), prop, adopt)
        if base.get('outcome') == 'ok':
            for c, r in zip(cases[1:], rs[1:]):
                if r.get('outcome') != 'ok':
                    continue
                if out_key(r) != out_key(base):
                    kind, det = diff_detail(base, r)
                    vs.append(Violation(prop, 'DIFF', kind, det, c, variant, family=[cases[0], c]))
        return vs, rs
    return ev
