"""Check engine: evaluators, reproduce-twice gate, bounded minimisation, replay files,
known-finding handling and the final verdict.  DESIGN.md section 9."""
import json, os, sys, time, copy, random
from . import core
from .core import Violation, run_case, pmap, log

EVALUATORS = {}   # name -> fn(cases:list, variant:str) -> (list[Violation], list[result])

def evaluator(name):
    def deco(fn):
        EVALUATORS[name] = fn
        return fn
    return deco

class Check:
    def __init__(self, prop, tier, seed, level='exploration'):
        core.RUNNING_CHECK = prop
        self.prop, self.tier, self.seed = prop, tier, seed
        self.ev = core.Evidence(prop, tier, seed, level)
        self.known = core.load_known()
        self.pending = []      # (Violation, evaluator name)
        self.reported_sigs = set()
        self.exit_code = 0
        self.deadline = time.time() + float(os.environ.get('VERIF_BUDGET_S', '150' if tier == 'quick' else '900'))
        self.rng = random.Random(seed)
        # what a check explores is a function of (tier, VERIF_SEED, VERIF_ROUNDS) only - never of how fast the machine is
        self.rounds = int(os.environ.get('VERIF_ROUNDS', '1'))
        self.max_gate = 6 if tier == 'quick' else 14
    def time_left(self):
        return self.deadline - time.time()
    def add(self, v, evalname):
        """queue a candidate violation (deduplicated by signature) for gating at the end"""
        # two candidates are the same only if they have the same signature *and* the same standing with respect to the recorded findings:
        # a violation outside every finding's predicate must not be folded into one that a finding explains
        sig = v.signature(); k = core.match_known(v, self.known); v.extra['_kid'] = k['id'] if k else None
        for pv, _ in self.pending:
            if pv.signature() == sig and pv.extra.get('_kid') == v.extra['_kid']:
                pv.extra['count'] = pv.extra.get('count', 1) + 1
                return
        self.pending.append((v, evalname))
    # ---- gate / minimise / report ------------------------------------------------------------
    def _reproduce(self, v, evalname, cases):
        vs, _ = EVALUATORS[evalname](cases, v.variant)
        for w in vs:
            if w.prop in (v.prop, v.extra.get('raw_prop')) and w.signature() == v.signature():
                return w
        return None
    def finish(self):
        known_lines, viol_lines = [], []
        gated = 0
        # known findings first (cheap: no minimisation), then unknown ones up to the gate budget
        order = sorted(self.pending, key=lambda pe: 0 if core.match_known(pe[0], self.known) else 1)
        for v, evalname in order:
            k = core.match_known(v, self.known)
            cases = v.family if v.family else [v.case]
            if k:
                self.ev.known_hit[k['id']] = self.ev.known_hit.get(k['id'], 0) + v.extra.get('count', 1)
                known_lines.append('KNOWN-FINDING: property=%s %s [%s]' % (v.prop, k['what'], k['id']))
                continue
            if gated >= self.max_gate:
                self.ev.notes.append('gate budget exhausted; ungated candidate: %s %s' % (v.signature(), v.detail[:120]))
                # an ungated candidate is still reported as a violation only after reproduction, so reproduce once cheaply
            gated += 1
            r1 = self._reproduce(v, evalname, cases)
            r2 = self._reproduce(v, evalname, cases) if r1 else None
            if not (r1 and r2) and v.cls == 'HANG':
                # the wall-clock watchdog is the one classification that depends on real time (machine load): a watchdog expiry that does
                # not repeat is not a property violation and not a nondeterminism of the simulation; it is recorded, not reported
                self.ev.notes.append('watchdog expiry not reproduced (wall-clock, machine load): %s %s' % (v.detail[:80], core.case_hash(cases[0])))
                self.ev.probe('watchdog_expiry_not_reproduced')
                continue
            if not (r1 and r2):
                self.ev.internal_errors.append({'kind': 'not_reproducible', 'signature': v.signature(), 'detail': v.detail[:300], 'case': core._brief(cases[0])})
                self._save_internal(v, cases)
                self.exit_code = max(self.exit_code, 2)
                continue
            mcases = cases
            if gated <= 3 or self.tier == 'thorough':
                try:
                    mcases = self._minimise(v, evalname, cases)
                except Exception as e:   # minimisation must never hide a violation
                    self.ev.notes.append('minimisation failed: %r' % (e,))
            path = self._write_replay(v, evalname, mcases)
            # replay in a fresh evaluation must reproduce (it re-reads the file)
            ok = replay_file(path, quiet=True)
            if not ok:
                path = self._write_replay(v, evalname, cases)   # fall back to the unminimised case
                ok = replay_file(path, quiet=True)
            if not ok:
                self.ev.internal_errors.append({'kind': 'replay_mismatch', 'signature': v.signature()})
                self.exit_code = max(self.exit_code, 2)
                continue
            self.ev.violations.append({'signature': v.signature(), 'detail': v.detail[:400], 'replay': path, 'count': v.extra.get('count', 1)})
            viol_lines.append('VIOLATION property=%s replay=%s' % (v.prop, path))
            log('  %s: %s' % (v.signature(), v.detail[:300]))
            self.exit_code = max(self.exit_code, 1)
        if self.ev.evaluations == 0 or len(self.ev.distinct) < 2:
            # a check that explored nothing must not look like a pass
            self.ev.internal_errors.append({'kind': 'nothing_explored', 'evaluations': self.ev.evaluations, 'distinct': len(self.ev.distinct)})
            self.exit_code = max(self.exit_code, 2)
        for l in sorted(set(known_lines)):
            print(l)
        for l in viol_lines:
            print(l)
        self.ev.write()
        if self.exit_code == 2 and not viol_lines:
            print('INTERNAL: candidate violation(s) did not reproduce; see evidence/internal and evidence/%s.json' % self.prop)
        sys.stdout.flush()
        return 1 if viol_lines else (2 if self.exit_code == 2 else 0)
    def _save_internal(self, v, cases):
        d = os.path.join(core.EVIDENCE_DIR, 'internal'); os.makedirs(d, exist_ok=True)
        with open(os.path.join(d, '%s-%s.json' % (v.prop, core.case_hash(cases[0]))), 'w') as f:
            json.dump({'property': v.prop, 'signature': v.signature(), 'detail': v.detail, 'cases': cases}, f)
    def _write_replay(self, v, evalname, cases):
        d = os.path.join(core.EVIDENCE_DIR, 'replays'); os.makedirs(d, exist_ok=True)
        path = os.path.join(d, '%s-%s.json' % (v.prop, core.case_hash({'c': cases, 's': v.signature()})))
        with open(path, 'w') as f:
            json.dump({'property': v.prop, 'raw_property': v.extra.get('raw_prop', v.prop), 'class': v.cls, 'site': v.site, 'detail': v.detail, 'variant': v.variant, 'evaluator': evalname, 'seed': self.seed, 'cases': cases}, f, indent=1)
        return path
    # ---- bounded minimisation ------------------------------------------------------------------
    def _minimise(self, v, evalname, cases, budget=36, wall=90):
        t_end = time.time() + wall
        runs = [0]
        def still(cs):
            if runs[0] >= budget or time.time() > t_end:
                return False
            runs[0] += 1
            return self._reproduce(v, evalname, cs) is not None
        cur = copy.deepcopy(cases)
        from . import gen
        # 1. schedule: replace policy by explicit deviations (from a traced run of the failing member), then ddmin
        for idx in range(len(cur)):
            c = cur[idx]
            if c.get('world') in ('srm', 'seg') or (c.get('sim') or {}).get('policy', 'np') in ('np',):
                continue
            if c['sim'].get('policy') != 'explicit':
                tc = copy.deepcopy(c); tc['sim']['emit_trace'] = 1
                r = run_case(tc, v.variant)
                if 'trace' in r and len(r['trace']) < 20000:
                    ec = copy.deepcopy(c); ec['sim'] = {k: val for k, val in c['sim'].items() if k in ('quantum', 'step_limit', 'eintr', 'spurious', 'eperm', 'jumps', 'seed')}
                    ec['sim'].update({'policy': 'explicit', 'dev': r['trace']})
                    if not any(ec['sim'].get(k) for k in ('eintr', 'spurious')):
                        trial = cur[:idx] + [ec] + cur[idx + 1:]
                        if still(trial):
                            cur = trial
            c = cur[idx]
            if c['sim'].get('policy') == 'explicit':
                dev = c['sim']['dev']
                # drop everything first, then halves
                chunk = len(dev)
                while chunk >= 1 and dev and runs[0] < budget:
                    i = 0; progressed = False
                    while i < len(dev):
                        nd = dev[:i] + dev[i + chunk:]
                        tc = copy.deepcopy(c); tc['sim']['dev'] = nd
                        trial = cur[:idx] + [tc] + cur[idx + 1:]
                        if still(trial):
                            dev = nd; c = tc; cur = trial; progressed = True
                        else:
                            i += chunk
                        if runs[0] >= budget: break
                    if chunk == 1: break
                    chunk = max(1, chunk // 2)
        # 2. fewer frames (all members together), via the program generator descriptor
        g = cur[0].get('_gen')
        if g and g.get('n', 0) > 1:
            for n in (1, 2, 3, 5, 8, g['n'] // 2):
                if n >= g['n'] or runs[0] >= budget: continue
                trial = [gen.regen(c, n=n) for c in cur]
                if still(trial):
                    cur = trial; break
        # 3. configuration: drop each explicit field (all members), keep sizes
        keep = {'source_width', 'source_height', 'encoder_bit_depth'}
        for k in sorted((cur[0].get('cfg') or {}).keys()):
            if k in keep or runs[0] >= budget: continue
            if not all(k in (c.get('cfg') or {}) and c['cfg'][k] == cur[0]['cfg'][k] for c in cur):
                continue   # this field is what distinguishes family members
            trial = []
            for c in cur:
                tc = copy.deepcopy(c); tc['cfg'].pop(k, None); trial.append(tc)
            if still(trial):
                cur = trial
        self.ev.notes.append('minimised %s in %d re-executions' % (v.signature(), runs[0]))
        return cur

def replay_file(path, quiet=False):
    with open(path) as f:
        rp = json.load(f)
    from . import props, checks, checks2, checks3  # registers evaluators
    core.build(rp['variant'])
    vs, rs = EVALUATORS[rp['evaluator']](rp['cases'], rp['variant'])
    sig = '%s:%s' % (rp['class'], rp['site'])
    hit = [w for w in vs if w.prop in (rp['property'], rp.get('raw_property')) and w.signature() == sig]
    if not quiet:
        for w in vs:
            print('%s %s: %s' % (w.prop, w.signature(), w.detail[:500]))
        print('REPRODUCED' if hit else 'NOT REPRODUCED (expected %s)' % sig)
    return bool(hit)
