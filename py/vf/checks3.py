"""Decoder, API-program, teardown, fault-enumeration and multi-instance checks."""
import copy, random, os, json, time, hashlib, re
from . import core, gen, props
from .core import Violation, run_case, pmap, log
from .engine import Check, EVALUATORS, evaluator
from .props import single_violations, relabel, make_diff_evaluator, out_key, diff_detail
from .checks import check, CHECKS, BASE_CFG, run_batch, probes_enc, _default_key
from .checks2 import mk, run_families, ENC_ASSUME

STREAM_DIR = os.path.join(core.BUILD, 'streams')

STREAM_SPECS = {
    'base8':      ({'enc_mode': 8, 'logical_processors': 1}, {'kind': 'mix', 'seed': 3}, 8, (64, 64)),
    'tiles2x2':   ({'enc_mode': 6, 'tile_columns': 1, 'tile_rows': 1, 'logical_processors': 2}, {'kind': 'moving', 'seed': 5}, 8, (256, 192)),
    'tiles4x2':   ({'enc_mode': 8, 'tile_columns': 2, 'tile_rows': 1, 'logical_processors': 2}, {'kind': 'mix', 'seed': 6}, 6, (512, 256)),
    'tiles1x2':   ({'enc_mode': 8, 'tile_columns': 1, 'tile_rows': 0, 'logical_processors': 2}, {'kind': 'moving', 'seed': 16}, 6, (256, 192)),   # more tile columns than rows
    'tiles2x1':   ({'enc_mode': 8, 'tile_columns': 0, 'tile_rows': 1, 'logical_processors': 2}, {'kind': 'moving', 'seed': 17}, 6, (192, 256)),   # more tile rows than columns
    'tiles1x4':   ({'enc_mode': 8, 'tile_columns': 2, 'tile_rows': 0, 'logical_processors': 2}, {'kind': 'mix', 'seed': 18}, 5, (512, 192)),
    'tilecols_w': ({'enc_mode': 8, 'tile_columns': 1, 'tile_rows': 0, 'logical_processors': 2, 'qp': 45}, {'kind': 'moving', 'seed': 23}, 5, (640, 192)),   # two tile columns, each 5 superblocks wide, 3 superblock rows: room for the recon wavefront inside a tile
    'superres_kf': ({'enc_mode': 6, 'superres_mode': 1, 'superres_denom': 9, 'superres_kf_denom': 16, 'logical_processors': 1, 'enable_tpl_la': 0, 'intra_period_length': 3, 'intra_refresh_type': 2}, {'kind': 'moving', 'seed': 25}, 9, (128, 128)),   # key frames coded at half width, the others at full width: frame size changes under one sequence header
    'superres_rnd': ({'enc_mode': 6, 'superres_mode': 2, 'intra_period_length': 3, 'intra_refresh_type': 2, 'logical_processors': 1, 'enable_tpl_la': 0}, {'kind': 'moving', 'seed': 26}, 8, (128, 128)),
    'tc_intra':   ({'enc_mode': 8, 'tile_columns': 1, 'tile_rows': 0, 'logical_processors': 2, 'qp': 40, 'intra_period_length': 1}, {'kind': 'moving', 'seed': 24}, 4, (640, 320)),   # every second picture intra coded: intra prediction reads the neighbouring superblocks' pixels
    'wide64':     ({'enc_mode': 8, 'logical_processors': 1}, {'kind': 'mix', 'seed': 19}, 5, (192, 64)),
    'k3w144':     ({'enc_mode': 8, 'logical_processors': 1, 'intra_period_length': 3, 'intra_refresh_type': 2}, {'kind': 'moving', 'seed': 20}, 9, (144, 64)),   # sequence header repeated at every key frame
    'ten':        ({'enc_mode': 7, 'encoder_bit_depth': 10, 'logical_processors': 1}, {'kind': 'mix', 'seed': 7}, 5, (64, 64)),
    'grain':      ({'enc_mode': 8, 'film_grain_denoise_strength': 10, 'logical_processors': 1}, {'kind': 'grainy', 'seed': 8, 'val': 64}, 5, (64, 64)),   # 'grainy' content: the grain estimator finds flat blocks with measurable noise, so apply_grain=1 (white noise gives apply_grain=0)
    # film-grain parameters inherited from a reference frame (update_parameters=0): the encoder signals that when consecutive pictures have the same estimated grain model (repeated / static pictures)
    'grain_static': ({'enc_mode': 8, 'film_grain_denoise_strength': 20, 'logical_processors': 1}, {'kind': 'grainy', 'seed': 21, 'static': 1, 'val': 64}, 7, (64, 64)),
    'grain_hold':   ({'enc_mode': 8, 'film_grain_denoise_strength': 12, 'logical_processors': 1, 'hierarchical_levels': 3}, {'kind': 'grainy', 'seed': 22, 'hold': 3}, 9, (128, 128)),
    'lr_cdef':    ({'enc_mode': 4, 'enable_restoration_filtering': 1, 'cdef_level': 1, 'logical_processors': 2}, {'kind': 'hgrad', 'seed': 9}, 4, (128, 128)),
    'sb128':      ({'enc_mode': 5, 'super_block_size': 128, 'logical_processors': 2}, {'kind': 'moving', 'seed': 10}, 5, (192, 128)),
    'screen':     ({'enc_mode': 6, 'screen_content_mode': 1, 'palette_level': 6, 'intrabc_mode': 1, 'logical_processors': 1}, {'kind': 'text', 'seed': 11}, 4, (128, 64)),
    'overlay':    ({'enc_mode': 6, 'hierarchical_levels': 3, 'enable_overlays': 1, 'logical_processors': 2}, {'kind': 'moving', 'seed': 12}, 18, (64, 64)),
    'lowdelay':   ({'enc_mode': 7, 'pred_structure': 1, 'logical_processors': 1}, {'kind': 'moving', 'seed': 13}, 7, (72, 66)),
    'mfmv_wide':  ({'enc_mode': 6, 'enable_mfmv': 1, 'logical_processors': 2}, {'kind': 'moving', 'seed': 14}, 9, (320, 192)),
    'superres':   ({'enc_mode': 6, 'superres_mode': 1, 'superres_denom': 12, 'superres_kf_denom': 12, 'logical_processors': 1, 'enable_tpl_la': 0},   # TPL off: superres + TPL crashes the encoder (KF-C11-superres-tpl)
                   {'kind': 'moving', 'seed': 15}, 4, (128, 128)),
}

# streams produced by the libaom 3.6.0 encoder (worlds/aomenc.cc): coding tools and syntax combinations the SVT encoder never emits.
# (content, n, (w, h), bit depth, encoder settings, aom_codec_set_option key/values)
AOM_SPECS = {
    'aom_default':  ({'kind': 'moving', 'seed': 31}, 14, (128, 128), 8, {'lag': 12}, {'cpu-used': 3}),
    'aom_rt':       ({'kind': 'moving', 'seed': 32}, 8, (128, 96), 8, {'lag': 0, 'usage': 1}, {'cpu-used': 7}),
    'aom_screen':   ({'kind': 'text', 'seed': 33}, 5, (128, 64), 8, {'lag': 0}, {'cpu-used': 4, 'tune-content': 'screen', 'enable-palette': 1, 'enable-intrabc': 1}),
    'aom_grain':    ({'kind': 'moving', 'seed': 34}, 6, (64, 64), 8, {'lag': 4}, {'cpu-used': 5, 'film-grain-test': 3}),
    'aom_grain10':  ({'kind': 'mix', 'seed': 35}, 5, (64, 64), 10, {'lag': 0}, {'cpu-used': 5, 'film-grain-test': 11}),
    'aom_tiles':    ({'kind': 'moving', 'seed': 36}, 6, (256, 192), 8, {'lag': 4}, {'cpu-used': 5, 'tile-columns': 1, 'tile-rows': 1}),
    'aom_10bit':    ({'kind': 'mix', 'seed': 37}, 6, (96, 64), 10, {'lag': 4}, {'cpu-used': 4}),
    'aom_aq':       ({'kind': 'mix', 'seed': 38}, 8, (128, 128), 8, {'lag': 4}, {'cpu-used': 4, 'aq-mode': 1, 'deltaq-mode': 1}),
    'aom_cyclic':   ({'kind': 'moving', 'seed': 39}, 8, (128, 128), 8, {'lag': 0, 'usage': 1, 'end_usage': 1}, {'cpu-used': 6, 'aq-mode': 3}),
    'aom_lossless': ({'kind': 'mix', 'seed': 40}, 3, (64, 64), 8, {'lag': 0}, {'cpu-used': 5, 'lossless': 1}),
    'aom_sb128':    ({'kind': 'moving', 'seed': 41}, 6, (192, 128), 8, {'lag': 4}, {'cpu-used': 4, 'sb-size': 128}),
    'aom_sb64':     ({'kind': 'hgrad', 'seed': 42}, 5, (192, 128), 8, {'lag': 4, 'min_q': 4, 'max_q': 12}, {'cpu-used': 3, 'sb-size': 64}),
    'aom_superres': ({'kind': 'moving', 'seed': 43}, 5, (128, 128), 8, {'lag': 0, 'superres_mode': 1, 'superres_denom': 12, 'superres_kf_denom': 12}, {'cpu-used': 5}),
    'aom_superres_rnd': ({'kind': 'moving', 'seed': 50}, 8, (128, 128), 8, {'lag': 0, 'superres_mode': 2}, {'cpu-used': 5}),   # random super-resolution denominators: coded frame size changes from frame to frame
    'aom_errres':   ({'kind': 'moving', 'seed': 44}, 7, (96, 96), 8, {'lag': 0, 'error_resilient': 1}, {'cpu-used': 5}),
    'aom_odd':      ({'kind': 'mix', 'seed': 45}, 5, (70, 66), 8, {'lag': 4}, {'cpu-used': 4}),
    'aom_highq':    ({'kind': 'noise', 'seed': 46}, 4, (64, 64), 8, {'lag': 0, 'min_q': 0, 'max_q': 4}, {'cpu-used': 4}),
    'aom_lowq':     ({'kind': 'moving', 'seed': 47}, 8, (128, 128), 8, {'lag': 6, 'min_q': 50, 'max_q': 63}, {'cpu-used': 2}),
    'aom_alltools': ({'kind': 'moving', 'seed': 48}, 20, (128, 128), 8, {'lag': 16, 'min_q': 20, 'max_q': 45}, {'cpu-used': 1, 'enable-dist-wtd-comp': 1, 'enable-interintra-comp': 1, 'enable-dual-filter': 1, 'enable-masked-comp': 1, 'enable-diff-wtd-comp': 1, 'enable-interinter-wedge': 1,
                      'enable-interintra-wedge': 1, 'enable-smooth-interintra': 1, 'enable-obmc': 1, 'enable-warped-motion': 1, 'enable-global-motion': 1, 'enable-tx64': 1, 'enable-flip-idtx': 1, 'enable-ref-frame-mvs': 1, 'enable-onesided-comp': 1}),
    'aom_alltools10': ({'kind': 'mix', 'seed': 49}, 12, (96, 96), 10, {'lag': 8, 'min_q': 10, 'max_q': 40}, {'cpu-used': 2, 'enable-dist-wtd-comp': 1, 'enable-interintra-comp': 1, 'enable-dual-filter': 1, 'enable-masked-comp': 1, 'enable-tx64': 1, 'aq-mode': 2, 'enable-palette': 1}),
}

def make_streams(names, ck=None):
    """encode the named specs with the simulated encoder (np schedule) and dump temporal units"""
    os.makedirs(STREAM_DIR, exist_ok=True)
    cases, paths = [], {}
    for nm in names:
        if nm in AOM_SPECS:
            cont, n, wh, bd, encs, opts = AOM_SPECS[nm]
            pre = os.path.join(STREAM_DIR, '%s_%d' % (nm, os.getpid()))
            c = dict({'world': 'aomenc', 'content': dict(cont, w=wh[0], h=wh[1], n=n, bd=bd), 'options': {k: str(v) for k, v in opts.items()}, 'dump': pre, 'wall_timeout': 240}, **encs)
            cases.append(c); paths[nm] = {'path': pre + '.tu', 'w': wh[0], 'h': wh[1], 'bd': bd, 'n': n}; continue
        cfgo, cont, n, wh = STREAM_SPECS[nm]
        c = mk(None, dict(cfgo, recon_enabled=0), cont, n, wh, oracles={'decode': 1, 'parse': 1, 'recon_compare': 0})
        pre = os.path.join(STREAM_DIR, '%s_%d' % (nm, os.getpid())); c['dump'] = pre
        cases.append(c); paths[nm] = {'path': pre + '.tu', 'w': wh[0], 'h': wh[1], 'bd': cfgo.get('encoder_bit_depth', 8), 'n': n}
    rs = pmap(lambda c: run_case(c, 'plain'), cases, variant='plain')
    ok = {}
    for nm, r in zip(names, rs):
        if r.get('outcome') == 'ok' and os.path.exists(paths[nm]['path']) and not any(f['name'].startswith('decode_error') for f in r.get('failures', [])):
            ok[nm] = paths[nm]
            if nm in AOM_SPECS:
                h = r.get('hdr_tools') or {}
                ok[nm] = dict(paths[nm], hdr_tools=h, options_rejected=r.get('options_rejected'), lr=int(bool(h.get('loop_restoration'))), superres=int(bool(h.get('superres'))))
            else:
                fr = [f for fl in (r.get('frames') or []) for f in fl if not f.get('se')]
                ok[nm] = dict(paths[nm], lr=int(any(any(f.get('lr', [])) for f in fr)), superres=int(any(f.get('superres') for f in fr)))
        elif ck:
            ck.ev.notes.append('stream %s not generated: %s %s' % (nm, r.get('outcome'), [f['name'] for f in r.get('failures', [])][:3]))
    return ok

def dec_case(st, threads=1, sim=None, oracles=None, transport=None, extra=None, mem=None):
    c = {'world': 'dec', 'stream': st['path'], 'w': st['w'], 'h': st['h'], 'bd': st['bd'], 'threads': threads, 'sim': sim or {'policy': 'np', 'seed': 1}, 'oracles': oracles or {}, 'wall_timeout': 240}
    if transport is not None: c['transport'] = transport
    if mem: c['mem'] = mem
    c['_lr'] = st.get('lr', 0); c['_superres'] = st.get('superres', 0)   # header-level tools of the stream (for root-cause-level finding predicates)
    if extra: c.update(extra)
    return c

def cleanup_streams():
    if os.path.isdir(STREAM_DIR):
        for f in os.listdir(STREAM_DIR):
            if f.endswith('_%d.tu' % os.getpid()) or f.endswith('_%d.obu' % os.getpid()):
                try: os.unlink(os.path.join(STREAM_DIR, f))
                except OSError: pass

def inline_stream(case):
    """replay files must be self-contained: embed the stream bytes (hex) instead of a path under .build"""
    c = copy.deepcopy(case)
    if c.get('instances'):
        c['instances'] = [inline_stream(i) if i.get('kind') == 'dec' and 'stream_hex' not in i else i for i in c['instances']]
        return c
    if 'stream' not in c or 'stream_hex' in c:
        return c
    try:
        with open(c['stream'], 'rb') as f:
            c['stream_hex'] = f.read().hex()
        c['stream'] = 'inline'   # the scratch path carries the process id: keep it out of the case so replay names are reproducible
        for o in c.get('transport') or []:
            if o.get('path'):
                with open(o['path'], 'rb') as f:
                    o['path_hex'] = f.read().hex()
                o['path'] = 'inline'
    except OSError:
        pass
    return c

DEC_COMPONENTS = core.COMPONENTS_DEC

# ---- C08 ----------------------------------------------------------------------------------------------------
@check('C08')
def check_c08(tier, seed):
    ck = Check('C08', tier, seed)
    ck.ev.rule = ('streams produced by simulated encodes under a spread of accepted configurations (8/10-bit, tiles, film grain incl. inherited parameters, restoration+CDEF, SB128, screen content, overlays, low delay, MFMV, superres) and streams produced by the libaom encoder (compound/skip modes, segmentation, delta-q, lossless, film-grain test vectors 8/10-bit, error-resilient, superres, SB128, screen content, all-tools) decoded by the SVT decoder with threads=1 under the scheduler, '
                  'is_16bit_pipeline in {0,1}, film grain applied; oracle: same number, order and samples as dav1d; distinct = distinct (stream, decoder configuration)')
    ck.ev.components = DEC_COMPONENTS; ck.ev.assumptions = ['streams come from the SVT encoder (simulated encodes) and from the libaom 3.6.0 encoder (dlopen, ABI probed; kept only when dav1d and the libaom decoder agree)', 'dav1d 1.0.0 via hand-declared ABI']
    core.build('plain'); rng = ck.rng
    names = list(STREAM_SPECS.keys()) + list(AOM_SPECS) if tier != 'quick' else ['base8', 'tiles2x2', 'ten', 'grain', 'grain_static', 'grain_hold', 'lr_cdef', 'sb128', 'screen', 'overlay', 'lowdelay', 'superres', 'superres_kf', 'superres_rnd'] + list(AOM_SPECS)
    st = make_streams(names, ck)
    cases = []
    for nm, s in st.items():
        for p16 in (0, 1):
            cases.append(dec_case(s, 1, oracles={'decode': 1}, extra={'is_16bit_pipeline': p16, '_stream': nm}))
    rs = pmap(lambda c: run_case(c, 'plain'), cases, variant='plain')
    for c, r in zip(cases, rs):
        ck.ev.add_run(c, r, (c['_stream'], c['is_16bit_pipeline']) if r.get('outcome') == 'ok' and r.get('npictures') else None)
        ck.ev.probe('stream:' + c['_stream'])
        for k, n in ((st[c['_stream']].get('hdr_tools') or {}).items() if c['is_16bit_pipeline'] == 0 else []):
            if n and k != 'parse_errors': ck.ev.probe('aom_hdr:' + k)
        for v in relabel(single_violations(c, r, 'plain'), 'C08', ('TERM', 'CRASH')):
            v.case = inline_stream(v.case); ck.add(v, 'single_dec')
    rc = ck.finish(); cleanup_streams(); return rc

@evaluator('single_dec')
def eval_single_dec(cases, variant):
    """decoder cases whose stream may be embedded in the replay file"""
    cs = [_unhex(c) for c in cases]
    rs = pmap(lambda c: run_case(c, variant), cs, variant=variant); vs = []
    for c0, c, r in zip(cases, cs, rs):
        for v in single_violations(c, r, variant):
            v.case = c0; vs.append(v)
    return vs, rs

# ---- C09 ----------------------------------------------------------------------------------------------------
@evaluator('diff_dec')
def eval_diff_dec(cases, variant):
    vs, rs = eval_single_dec(cases, variant)
    b = rs[0]
    if b.get('outcome') == 'ok':
        for c, r in zip(cases[1:], rs[1:]):
            if r.get('outcome') == 'ok' and r.get('output_hash') != b.get('output_hash'):
                vs.append(Violation('C09', 'DIFF', 'pictures', c09_diff(b, r, c), c, variant, family=[cases[0], c]))
    return vs, rs

def c09_diff(b, r, c):
    pa, pb = b.get('pictures', []), r.get('pictures', [])
    first = next((k for k, (x, y) in enumerate(zip(pa, pb)) if x != y), None)
    return 'threads=%d: %d pictures vs %d single-threaded; first differing picture %s; %d differ' % (c['threads'], len(pb), len(pa), first, sum(1 for x, y in zip(pa, pb) if x != y))

@check('C09')
def check_c09(tier, seed):
    ck = Check('C09', tier, seed)
    ck.ev.rule = ('family = one stream (1..8 tiles; MFMV/LR/CDEF/superres sync paths) x threads in {2,3,4,8,16} x schedule policies, busy-wait loops are scheduling points (SVT_VERIF_SPIN); reference member: threads=1; '
                  'oracle: pictures byte-identical to the single-threaded result, no ASan report, no DEADLOCK/LIVELOCK, deinit + deinit_handle return with all workers joined and the allocation ledger empty; distinct = distinct (stream, threads, decision trace)')
    ck.ev.components = DEC_COMPONENTS; ck.ev.assumptions = ['instruction-level data races on volatile flags are outside the model (orderings of whole segments between scheduling points are explored)']
    variant = 'asan'; core.build(variant); core.build('plain'); rng = ck.rng
    names = (['base8', 'tiles2x2', 'tiles1x2', 'tiles2x1', 'tiles1x4', 'tilecols_w', 'tc_intra', 'lr_cdef', 'mfmv_wide', 'aom_default', 'aom_tiles', 'aom_superres', 'aom_lowq', 'aom_cyclic', 'aom_grain', 'aom_alltools10'] if tier == 'quick'
             else ['base8', 'tiles2x2', 'tiles1x2', 'tiles2x1', 'tiles1x4', 'tiles4x2', 'lr_cdef', 'mfmv_wide', 'sb128', 'grain', 'superres', 'ten', 'overlay'] + list(AOM_SPECS))
    st = make_streams(names, ck)
    fams = []
    for nm, s in st.items():
        base = dec_case(s, 1, extra={'_stream': nm}); fam = [base]
        for k in range(4 if tier == 'quick' else 10):
            th = rng.choice([2, 3, 4, 8] if tier == 'quick' else [2, 3, 4, 8, 16])
            fam.append(dec_case(s, th, sim=dict(gen.schedule(rng, horizon=3000, nthreads=th + 1, allow_buggify=True), step_limit=30000000), extra={'_stream': nm}))
        fams.append(fam)
    flat = [c for f in fams for c in f]
    rs = pmap(lambda c: run_case(c, variant), flat, variant=variant); i = 0
    for fam in fams:
        frs = rs[i:i + len(fam)]; i += len(fam); b = frs[0]
        for c, r in zip(fam, frs):
            ok = r.get('outcome') == 'ok' and r.get('npictures')
            ck.ev.add_run(c, r, (c['_stream'], c['threads'], r['sim']['trace_hash']) if ok else None)
            ck.ev.probe('threads=%d' % c['threads']); ck.ev.probe('spin_yields', (r.get('sim') or {}).get('spins', 0))
            for v in relabel(single_violations(c, r, variant), 'C09', ('TERM', 'CRASH')):
                v.case = inline_stream(v.case); ck.add(v, 'single_dec')
            if r.get('outcome') == 'ok':
                L = r.get('ledger', {})
                if L.get('threads_created') != L.get('threads_joined') or L.get('live_blocks'):
                    ck.add(Violation('C09', 'ORACLE', 'teardown_ledger', 'after deinit_handle: threads created/joined %s/%s, live library blocks %s' % (L.get('threads_created'), L.get('threads_joined'), L.get('live_blocks')), inline_stream(c), variant), 'ledger_dec')
        if b.get('outcome') != 'ok': continue
        for c, r in zip(fam[1:], frs[1:]):
            if r.get('outcome') == 'ok' and r.get('output_hash') != b.get('output_hash'):
                ck.add(Violation('C09', 'DIFF', 'pictures', c09_diff(b, r, c), inline_stream(c), variant, family=[inline_stream(fam[0]), inline_stream(c)]), 'diff_dec')
    # the same families with forced preemptions *inside* the decoding of a superblock (function entries: build variant "fine"; individual loads and
    # stores: build variant "mem"): a worker that starts a superblock before the ones it depends on are finished is only observable when another
    # worker can be stopped in the middle of reconstructing them - at synchronisation-operation granularity a superblock is atomic
    core.build('fine'); core.build('mem'); ffams = []
    for nm in [n for n in ('tiles1x4', 'tc_intra', 'tilecols_w', 'tiles1x2', 'aom_tiles', 'base8', 'aom_default') if n in st]:
        s = st[nm]; base = dec_case(s, 1, extra={'_stream': nm}); fam = [(base, 'plain')]
        for k in range(6 if tier == 'quick' else 16):
            th = rng.choice([2, 3, 4, 8]); fv = 'fine' if k % 2 == 0 else 'mem'
            sim = dict(gen.schedule(rng, horizon=3000, nthreads=th + 1, allow_buggify=False), step_limit=60000000)
            if fv == 'fine': sim['fine'] = rng.choice([300, 1500, 6000])
            else: sim['mem'] = rng.choice([200, 1000, 5000])
            fam.append((dec_case(s, th, sim=sim, extra={'_stream': nm}), fv))
        ffams.append(fam)
    flat = [cv for f in ffams for cv in f]
    rs = pmap(lambda cv: run_case(cv[0], cv[1]), flat, variant='plain'); i = 0
    for fam in ffams:
        frs = rs[i:i + len(fam)]; i += len(fam); b = frs[0]
        for (c, fv), r in zip(fam, frs):
            ok = r.get('outcome') == 'ok' and r.get('npictures')
            ck.ev.add_run(c, r, (c['_stream'], c['threads'], r['sim']['trace_hash'], fv) if ok else None)
            ck.ev.fault('fine_preemption', (r.get('sim') or {}).get('fine_preemptions', 0)); ck.ev.fault('mem_preemption', (r.get('sim') or {}).get('mem_preemptions', 0))
            for v in relabel(single_violations(c, r, fv), 'C09', ('TERM', 'CRASH')):
                v.case = inline_stream(v.case); ck.add(v, 'single_dec')
        if b.get('outcome') != 'ok': continue
        for (c, fv), r in zip(fam[1:], frs[1:]):
            if r.get('outcome') == 'ok' and r.get('output_hash') != b.get('output_hash'):
                ck.add(Violation('C09', 'DIFF', 'pictures', c09_diff(b, r, c), inline_stream(c), fv, family=[inline_stream(fam[0][0]), inline_stream(c)]), 'diff_dec')
    rc = ck.finish(); cleanup_streams(); return rc

@evaluator('ledger_dec')
def eval_ledger_dec(cases, variant):
    vs0, rs = eval_single_dec(cases, variant); vs = []
    for c, r in zip(cases, rs):
        L = r.get('ledger', {})
        if r.get('outcome') == 'ok' and (L.get('threads_created') != L.get('threads_joined') or L.get('live_blocks')):
            vs.append(Violation(c.get('_prop', 'C09'), 'ORACLE', 'teardown_ledger', 'after deinit_handle: threads created/joined %s/%s, live library blocks %s' % (L.get('threads_created'), L.get('threads_joined'), L.get('live_blocks')), c, variant))
    return vs, rs

# ---- C10 ----------------------------------------------------------------------------------------------------
def transport_ops(rng, ntu, sizes):
    ops = []
    for _ in range(rng.choice([1, 1, 1, 2, 3])):
        k = rng.randrange(ntu); sz = max(1, sizes[k % len(sizes)])
        kind = rng.choice(['flip', 'flip', 'flip', 'trunc', 'trunc', 'set', 'drop', 'dup', 'swap', 'rand', 'randtail', 'splice', 'insert', 'empty'])
        if kind == 'flip':
            region = rng.random()
            hi = 16 if region < 0.4 else (64 if region < 0.75 else sz)
            ops.append({'kind': 'flip', 'tu': k, 'bits': [rng.randrange(min(hi, sz) * 8) for _ in range(rng.choice([1, 1, 2, 4]))]})
        elif kind == 'trunc': ops.append({'kind': 'trunc', 'tu': k, 'at': rng.randrange(sz)})
        elif kind == 'set': ops.append({'kind': 'set', 'tu': k, 'at': rng.randrange(min(sz, 48)), 'val': rng.choice([0, 0xff, 0x80, 0x7f, rng.randrange(256)])})
        elif kind in ('drop', 'dup', 'swap', 'empty'): ops.append({'kind': kind, 'tu': k})
        elif kind == 'rand': ops.append({'kind': 'rand', 'tu': k, 'len': rng.choice([1, 2, 7, 64, 500]), 'seed': rng.randrange(10**6)})
        elif kind == 'randtail': ops.append({'kind': 'randtail', 'tu': k, 'at': rng.randrange(sz), 'seed': rng.randrange(10**6)})
        elif kind == 'splice': ops.append({'kind': 'splice', 'tu': k, 'from': rng.randrange(ntu), 'at': rng.randrange(sz), 'at2': rng.randrange(1000)})
        elif kind == 'insert': ops.append({'kind': 'insert', 'tu': k, 'at': rng.randrange(sz), 'len': rng.choice([1, 3, 8]), 'seed': rng.randrange(10**6)})
    return ops

CORPUS_DIR = os.path.join(core.ROOT, 'corpus', 'c10')

def tu_sizes(path):
    sizes = []
    with open(path, 'rb') as f:
        data = f.read()
    o = 0
    while o + 4 <= len(data):
        n = int.from_bytes(data[o:o + 4], 'little'); sizes.append(n); o += 4 + n
    return sizes

def build_c10_corpus(want=120, seed=20260921):
    """(development tool) regenerate corpus/c10: streams from the simulated encoder + corrupted-transport cases that the
    current tree survives on the ASan build.  The committed corpus is what the quick check replays."""
    import random as _r
    core.build('asan'); core.build('plain'); rng = _r.Random(seed)
    os.makedirs(CORPUS_DIR, exist_ok=True)
    st = make_streams(['base8', 'screen', 'grain', 'lowdelay', 'tiles2x2', 'wide64', 'k3w144'])
    meta = {}
    for nm, s in st.items():
        dst = os.path.join(CORPUS_DIR, nm + '.tu'); 
        with open(s['path'], 'rb') as f: data = f.read()
        with open(dst, 'wb') as f: f.write(data)
        meta[nm] = {'w': s['w'], 'h': s['h'], 'bd': s['bd'], 'n': s['n']}
    keep = []; tried = 0
    while len(keep) < want and tried < want * 12:
        batch = []
        for _ in range(60):
            nm = rng.choice(list(meta)); sizes = tu_sizes(os.path.join(CORPUS_DIR, nm + '.tu'))
            r = rng.random()
            if r < 0.2:    # another stream (other picture size) continues on the same handle, optionally after cutting the first one
                nm2 = rng.choice([x for x in meta if x != nm]); ops = [{'kind': 'concat', 'stream2': nm2, 'keep': rng.randint(1, len(sizes))}]
                if rng.random() < 0.4: ops += transport_ops(rng, len(sizes), sizes)[:1]
                batch.append({'stream': nm, 'transport': ops, 'annexb': 0})
            elif r < 0.4:  # bit flips inside the (repeated) sequence headers: temporal delimiter (2 bytes) + OBU header/size (2 bytes) + payload
                k = rng.randrange(len(sizes)); batch.append({'stream': nm, 'transport': [{'kind': 'flip', 'tu': k, 'bits': [rng.randrange(32, 32 + 12 * 8) for _ in range(rng.choice([1, 1, 2]))]}], 'annexb': 0})
            else:
                batch.append({'stream': nm, 'transport': transport_ops(rng, len(sizes), sizes), 'annexb': 0})
        cases = [corpus_case(b, meta) for b in batch]
        rs = pmap(lambda c: run_case(c, 'asan'), cases, variant='asan'); tried += len(batch)
        for b, c, r in zip(batch, cases, rs):
            if r.get('outcome') == 'ok' and not r.get('ubsan') and len(keep) < want:
                b['expect_pictures'] = r.get('npictures'); keep.append(b)
    with open(os.path.join(CORPUS_DIR, 'cases.json'), 'w') as f:
        json.dump({'streams': meta, 'cases': keep, 'tried': tried}, f, indent=0)
    cleanup_streams()
    return len(keep), tried

def extend_c10_corpus(names, want=60, seed=20260922):
    """(development tool) add further streams (e.g. libaom-encoded ones) and corrupted-transport cases over them which the current tree survives"""
    import random as _r
    core.build('asan'); core.build('plain'); rng = _r.Random(seed)
    with open(os.path.join(CORPUS_DIR, 'cases.json')) as f: corp = json.load(f)
    meta = corp['streams']; st = make_streams(names); added = []
    for nm, s in st.items():
        with open(s['path'], 'rb') as f: data = f.read()
        with open(os.path.join(CORPUS_DIR, nm + '.tu'), 'wb') as f: f.write(data)
        meta[nm] = {'w': s['w'], 'h': s['h'], 'bd': s['bd'], 'n': s['n']}
    keep = []; tried = 0
    while len(keep) < want and tried < want * 15:
        batch = []
        for _ in range(60):
            nm = rng.choice(sorted(st)); sizes = tu_sizes(os.path.join(CORPUS_DIR, nm + '.tu'))
            if rng.random() < 0.15:
                nm2 = rng.choice([x for x in meta if x != nm and meta[x]['bd'] == meta[nm]['bd']]); batch.append({'stream': nm, 'transport': [{'kind': 'concat', 'stream2': nm2, 'keep': rng.randint(1, len(sizes))}], 'annexb': 0})
            else:
                batch.append({'stream': nm, 'transport': transport_ops(rng, len(sizes), sizes), 'annexb': 0})
        cases = [corpus_case(b, meta) for b in batch]
        rs = pmap(lambda c: run_case(c, 'asan'), cases, variant='asan'); tried += len(batch)
        for b, c, r in zip(batch, cases, rs):
            if r.get('outcome') == 'ok' and not r.get('ubsan') and len(keep) < want:
                b['expect_pictures'] = r.get('npictures'); keep.append(b)
    corp['cases'] += keep; corp['tried'] = corp.get('tried', 0) + tried
    with open(os.path.join(CORPUS_DIR, 'cases.json'), 'w') as f: json.dump(corp, f, indent=0)
    cleanup_streams()
    return len(keep), tried

def corpus_case(b, meta):
    m = meta[b['stream']]; w, h = m['w'], m['h']; ops = []
    for o in b['transport']:
        o = dict(o)
        if o.get('kind') == 'concat':
            m2 = meta[o['stream2']]; w, h = max(w, m2['w']), max(h, m2['h']); o['path'] = os.path.join(CORPUS_DIR, o['stream2'] + '.tu')
        ops.append(o)
    return {'world': 'dec', 'stream': os.path.join(CORPUS_DIR, b['stream'] + '.tu'), 'w': w, 'h': h, 'bd': m['bd'], 'threads': 1, 'sim': {'policy': 'np', 'seed': 1}, 'oracles': {}, 'wall_timeout': 40,
            'transport': ops, 'annexb': b.get('annexb', 0), '_stream': b['stream'], '_corpus': 1}

@check('C10')
def check_c10(tier, seed):
    ck = Check('C10', tier, seed)
    ck.ev.rule = ('valid streams passed through a faulty transport: per temporal unit drop / duplicate / swap / truncate at a seeded byte / flip 1..4 seeded bits (biased to OBU headers, size fields, first 64 bytes) / set byte / random bytes / random tail / splice two units / insert bytes / empty; '
                  'single-threaded decoder on the ASan + arithmetic-UBSan build; oracle: every dec_frame/get_picture call returns (any code), no sanitizer report, no trapped exit/abort, no signal, no hang (wall-clock watchdog for loops without scheduling points), teardown succeeds. '
                  'Part 1 (regression corpus, committed under corpus/c10): corrupted inputs which the pinned tree survives - any failure here is a violation. Part 2 (exploration): freshly generated corruptions of freshly encoded streams - this decoder has no input validation, '
                  'so crashes here are expected and matched by one broad recorded finding (their sites are listed in the evidence). distinct = distinct (stream, fault sequence)')
    ck.ev.components = DEC_COMPONENTS; ck.ev.assumptions = ['structured corruption of valid streams, not coverage-guided fuzzing', 'the regression corpus is only as good as the corruptions the pinned tree happens to survive']
    variant = 'asan'; core.build(variant); core.build('plain'); rng = ck.rng
    with open(os.path.join(CORPUS_DIR, 'cases.json')) as f:
        corp = json.load(f)
    cb = corp['cases']
    cases = [corpus_case(b, corp['streams']) for b in cb]
    # exact-size input buffers keep demonstrating the bit reader's look-ahead (recorded finding)
    ex = corpus_case({'stream': 'base8', 'transport': []}, corp['streams']); ex['exact_input'] = 1; ex['_corpus'] = 0; ex['_explore'] = 0; cases.append(ex)
    clean = make_streams(['superres_kf', 'superres_rnd', 'aom_superres_rnd', 'aom_superres', 'k3w144', 'aom_errres'], ck)
    for nm, s_ in clean.items():
        for th in (1, 4):
            cases.append(dec_case(s_, th, extra={'_stream': nm, '_corpus': 0, '_explore': 0, '_clean': 1})); ck.ev.probe('clean_structure_changing_stream')
    st = make_streams(['base8', 'screen'] if tier == 'quick' else ['base8', 'tiles2x2', 'screen', 'grain', 'ten', 'lr_cdef', 'overlay', 'lowdelay'], ck)
    rounds = 0
    sites = {}
    while True:
        for nm, s in st.items():
            sizes = tu_sizes(s['path'])
            for k in range(25 if tier == 'quick' else 60):
                cases.append(dec_case(s, 1, transport=transport_ops(rng, len(sizes), sizes), extra={'_stream': nm, 'annexb': 1 if rng.random() < 0.05 else 0, 'wall_timeout': 40, '_explore': 1}))
        rs = pmap(lambda c: run_case(c, variant), cases, variant=variant)
        for c, r in zip(cases, rs):
            ck.ev.add_run(c, r, core.case_hash({'t': c.get('transport'), 's': c['_stream'], 'x': c.get('exact_input')}))
            for k, v in (r.get('transport_fired') or {}).items(): ck.ev.fault('transport_' + k, v)
            h = r.get('history', [])
            if any(x[0] == 'dec_frame' and x[1] != 0 for x in h): ck.ev.probe('dec_frame_returned_error')
            if any(x[0] == 'dec_frame' and x[1] == 0 for x in h): ck.ev.probe('dec_frame_returned_ok')
            if c.get('_corpus'): ck.ev.probe('corpus_cases')
            for v in relabel(single_violations(c, r, variant), 'C10', ('TERM', 'CRASH', 'C11')):
                if c.get('_explore'): sites[v.signature()] = sites.get(v.signature(), 0) + 1
                if c.get('_corpus') and r.get('outcome') == 'ok' and c.get('_stream') in corp['streams']:
                    pass
                v.case = inline_stream(v.case); ck.add(v, 'single_dec')
        rounds += 1; cases = []
        if tier == 'quick' or rounds >= ck.rounds: break
    ck.ev.extra['exploration_crash_sites'] = sites
    rc = ck.finish(); cleanup_streams(); return rc

# ---- C14 ----------------------------------------------------------------------------------------------------
NULL_OPS = [('set_param', 'handle'), ('set_param', 'cfg'), ('init', 'handle'), ('stream_header', 'handle'), ('stream_header', 'out'), ('stream_header_release', 'buf'), ('send', 'handle'), ('send', 'buf'), ('get_packet', 'handle'), ('get_packet', 'out'),
            ('release', 'ptr'), ('release', 'inner'), ('get_recon', 'handle'), ('get_recon', 'buf'), ('stream_info', 'handle'), ('stream_info', 'info'), ('deinit', 'handle'), ('deinit_handle', 'handle'), ('init_handle', 'handle'), ('init_handle', 'cfg')]
BAD_FIELDS = [{'enc_mode': 99}, {'source_width': 7}, {'qp': 200}, {'encoder_bit_depth': 9}, {'tile_columns': 77}, {'hierarchical_levels': 17}, {'rate_control_mode': 9}, {'super_block_size': 100}]
VOID_OPS = ('release',)

def c14_program(rng, n, nnull, retry):
    p = gen.program(n, 'each', recon=True)
    # legal insertion points: after init_handle (index 1..), anywhere before deinit
    idx_deinit = next(i for i, o in enumerate(p) if o['op'] == 'deinit')
    ins = []
    for _ in range(nnull):
        op, nul = rng.choice(NULL_OPS)
        pos = rng.randint(1, idx_deinit)
        if op == 'init_handle': pos = 0
        ins.append((pos, {'op': op, 'null': nul, 'max': 1}))
    for pos, o in sorted(ins, key=lambda t: -t[0]):
        p.insert(int(pos), o)
    if retry:
        # rejected configuration(s) first, then the valid one (the order the statement is about)
        iv = next(i for i, o in enumerate(p) if o['op'] == 'set_param' and not o.get('null') and not o.get('bad'))
        for j in range(rng.randint(1, 3)):
            p.insert(iv, {'op': 'set_param', 'bad': rng.choice(BAD_FIELDS)})
    return p

def c14_oracle(case, res, variant):
    V = []; h = res.get('history', [])
    prog = case['program']
    for e in h:
        o = prog[e[0]]
        if o.get('null') and o['op'] not in VOID_OPS:
            if e[2] == 0:
                V.append(Violation('C14', 'ORACLE', 'null_accepted:%s(%s)' % (o['op'], o['null']), '%s with NULL %s returned EB_ErrorNone' % (o['op'], o['null']), case, variant))
    # retry after rejection
    for i, e in enumerate(h):
        o = prog[e[0]]
        if o['op'] == 'set_param' and o.get('bad') and not o.get('null'):
            if e[2] == 0:
                pass  # the library accepted the "bad" value: outside what this oracle decides (C12)
    bads = [e for e in h if prog[e[0]]['op'] == 'set_param' and prog[e[0]].get('bad') and e[2] != 0]
    if bads and res.get('outcome') == 'ok':
        good = [e for e in h if prog[e[0]]['op'] == 'set_param' and not prog[e[0]].get('bad') and not prog[e[0]].get('null') and e[0] > bads[-1][0]]
        if good and good[0][2] != 0:
            V.append(Violation('C14', 'ORACLE', 'retry_rejected', 'valid set_parameter after a rejected one returned 0x%x' % (good[0][2] & 0xffffffff), case, variant))
        elif good and res.get('npackets') != len([o for o in prog if o['op'] == 'send' and not o.get('null')]):
            V.append(Violation('C14', 'ORACLE', 'retry_session_broken', 'session after rejected+valid set_parameter delivered %s packets' % res.get('npackets'), case, variant))
    return V

@evaluator('single14')
def eval_single14(cases, variant):
    rs = pmap(lambda c: run_case(c, variant), cases, variant=variant); vs = []
    for c, r in zip(cases, rs):
        if c.get('world') == 'dec':
            vs += c14_dec_oracle(c, r, variant)
        else:
            vs += c14_oracle(c, r, variant)
        vs += relabel(single_violations(c, r, variant), 'C14', ('TERM', 'CRASH'))
    return vs, rs

def c14_dec_oracle(case, res, variant):
    V = []
    for e in res.get('history', []):
        if isinstance(e[0], str) and e[0].startswith('null:') and e[1] == 0:
            V.append(Violation('C14', 'ORACLE', 'null_accepted:' + e[0][5:], '%s returned EB_ErrorNone' % e[0][5:], case, variant))
    return V

@check('C14')
def check_c14(tier, seed):
    ck = Check('C14', tier, seed)
    ck.ev.rule = ('API programs: a legal encoder session with NULL-handle / NULL-buffer calls of every entry point inserted at seeded legal positions, and rejected set_parameter calls (one invalid field) followed by the valid one; the decoder entry points with NULL arguments; '
                  'oracle (protocol model): a NULL call returns a non-success code and the process survives, a valid set_parameter after a rejection returns EB_ErrorNone and the session encodes all pictures, no call other than the blocking packet wait leaves the app blocked with no runnable thread (decided DEADLOCK); '
                  'protocol-illegal orders are not generated; each insertion point is isolated (one NULL call per run) so that one crash does not mask the others; distinct = distinct programs')
    ck.ev.components = core.COMPONENTS_ENC; ck.ev.assumptions = ['protocol-illegal call orders are outside the statement and not generated']
    variant = 'asan'; core.build(variant); rng = ck.rng; cases = []
    cfg = {'logical_processors': 1, 'enc_mode': 8}
    # every NULL variant once, isolated
    for (op, nul) in NULL_OPS:
        p = gen.program(2, 'each', recon=True); idx = next(i for i, o in enumerate(p) if o['op'] == 'deinit')
        pos = 0 if op == 'init_handle' else (rng.randint(4, idx) if op not in ('set_param', 'init') else rng.choice([1, 2]))
        p.insert(pos, {'op': op, 'null': nul, 'max': 1})
        c = mk(ck, cfg, {'kind': 'mix', 'seed': 3}, 2, (64, 64), oracles={'decode': 0, 'parse': 0, 'order': 0}); c['program'] = p; c['_gen'] = None; cases.append(c)
    for k in range(12 if tier == 'quick' else 40):
        n = rng.randint(1, 4)
        c = mk(ck, cfg, {'kind': 'mix', 'seed': rng.randint(1, 99)}, n, (64, 64), oracles={'decode': 0, 'parse': 0, 'order': 0}); c['program'] = c14_program(rng, n, 0, True); c['_gen'] = None; cases.append(c)
    # the same erroneous call many times in a row, then a normal session: an error return must not consume anything (pool objects, locks, memory)
    for (op, nul) in [x for x in NULL_OPS if x[0] in ('send', 'get_packet', 'get_recon', 'stream_header', 'stream_info', 'set_param', 'release')]:
        p = gen.program(3, 'each', recon=True); pos = next(i for i, o in enumerate(p) if o['op'] == ('init' if op == 'set_param' else 'send'))
        for _ in range(400 if tier == 'quick' else 1500): p.insert(pos, {'op': op, 'null': nul, 'max': 1})   # more calls than any pool has objects
        c = mk(ck, cfg, {'kind': 'mix', 'seed': 5}, 3, (64, 64), oracles={'decode': 0, 'parse': 0, 'order': 0}); c['program'] = p; c['_gen'] = None; c['_repeat'] = 1; cases.append(c); ck.ev.probe('repeated_null_call')
    if tier != 'quick':
        for k in range(40):
            n = rng.randint(1, 4)
            c = mk(ck, cfg, {'kind': 'mix', 'seed': rng.randint(1, 99)}, n, (64, 64), sim=gen.schedule(rng), oracles={'decode': 0, 'parse': 0, 'order': 0}); c['program'] = c14_program(rng, n, rng.randint(1, 3), rng.random() < 0.3); c['_gen'] = None; cases.append(c)
    st = None
    from .checks3 import make_streams as _ms
    core.build('plain'); st = _ms(['base8'], ck)
    if 'base8' in st:
        cases.append(dec_case(st['base8'], 1, extra={'null_calls': 1, 'max_tus': 2}))
        cases.append(dec_case(st['base8'], 1, extra={'null_calls': 2, 'max_tus': 2}))
    rs = pmap(lambda c: run_case(c, variant), cases, variant=variant)
    for c, r in zip(cases, rs):
        ck.ev.add_run(c, r, core.case_hash(c.get('program', c)))
        if c.get('world') != 'dec' and any(c['program'][e[0]].get('bad') and e[2] == 0 for e in r.get('history', [])):
            # the library accepted the "invalid" value: two accepted set_parameter calls in a row are not what the statement is about
            ck.ev.probe('bad_value_accepted_by_library(not evaluated)'); continue
        vs = (c14_dec_oracle(c, r, variant) if c.get('world') == 'dec' else c14_oracle(c, r, variant)) + relabel(single_violations(c, r, variant), 'C14', ('TERM', 'CRASH'))
        for v in vs:
            if c.get('world') == 'dec': v.case = inline_stream(v.case)
            # site of a crash inside a NULL-variant call: name the call
            if v.cls in ('ASAN', 'SIGNAL', 'DEADLOCK') and c.get('world') != 'dec':
                nulls = ['%s(%s)' % (o['op'], o['null']) for o in c['program'] if o.get('null')]; bad = any(o.get('bad') for o in c['program'])
                v.site = v.site + '|' + ','.join(nulls) + ('|after_rejected_set_param' if bad else '')
            ck.add(v, 'single14x')
        for o in c.get('program', []):
            if o.get('null'): ck.ev.fault('null_argument')
            if o.get('bad'): ck.ev.fault('rejected_configuration')
    rc = ck.finish(); cleanup_streams(); return rc

@evaluator('single14x')
def eval_single14x(cases, variant):
    vs, rs = eval_single14([(_unhex(c)) for c in cases], variant)
    for v in vs:
        c = v.case
        if v.cls in ('ASAN', 'SIGNAL', 'DEADLOCK') and c.get('world') != 'dec':
            nulls = ['%s(%s)' % (o['op'], o['null']) for o in c['program'] if o.get('null')]; bad = any(o.get('bad') for o in c['program'])
            v.site = v.site + '|' + ','.join(nulls) + ('|after_rejected_set_param' if bad else '')
    return vs, rs

def _unhex(c):
    if c.get('instances') and any('stream_hex' in i for i in c['instances']):
        c = copy.deepcopy(c); c['instances'] = [_unhex(i) for i in c['instances']]; return c
    if 'stream_hex' in c:
        c = copy.deepcopy(c); os.makedirs(STREAM_DIR, exist_ok=True)
        p = os.path.join(STREAM_DIR, 'replay_%s.tu' % hashlib.sha1(c['stream_hex'].encode()).hexdigest()[:12])
        with open(p, 'wb') as f: f.write(bytes.fromhex(c['stream_hex']))
        c['stream'] = p
        for o in c.get('transport') or []:
            if o.get('path_hex'):
                p2 = os.path.join(STREAM_DIR, 'replay_%s.tu' % hashlib.sha1(o['path_hex'].encode()).hexdigest()[:12])
                with open(p2, 'wb') as f: f.write(bytes.fromhex(o['path_hex']))
                o['path'] = p2
    return c

# ---- C15 ----------------------------------------------------------------------------------------------------
def c15_programs(rng, tier):
    progs = []
    full = gen.program(6, 'each', recon=True)
    def cut(ops, tail=('deinit', 'deinit_handle', 'session_end')):
        return ops + [{'op': t} for t in tail]
    progs.append(('after_init_handle', [{'op': 'init_handle'}, {'op': 'deinit_handle'}, {'op': 'session_end'}]))
    progs.append(('after_init_handle_deinit', cut([{'op': 'init_handle'}])))
    progs.append(('after_rejected_set_param', cut([{'op': 'init_handle'}, {'op': 'set_param', 'bad': {'enc_mode': 99}}])))
    progs.append(('after_set_param', cut([{'op': 'init_handle'}, {'op': 'set_param'}])))
    progs.append(('after_init', cut([{'op': 'init_handle'}, {'op': 'set_param'}, {'op': 'init'}])))
    progs.append(('after_stream_header', cut([{'op': 'init_handle'}, {'op': 'set_param'}, {'op': 'init'}, {'op': 'stream_header'}, {'op': 'stream_header_release'}])))
    for k in ([1, 3, 9] if tier == 'quick' else [1, 2, 3, 5, 9, 17, 20]):
        ops = [{'op': 'init_handle'}, {'op': 'set_param'}, {'op': 'init'}]
        j = rng.choice([0, 0, 1, 100])
        for i in range(k):
            ops.append({'op': 'send', 'i': i})
            if j: ops.append({'op': 'get_packet', 'max': j}); ops.append({'op': 'get_recon', 'max': j})
        if rng.random() < 0.5: ops.append({'op': 'yield', 'n': rng.randint(1, 3000)})
        progs.append(('midstream_%d_sends_%d_polled' % (k, j), cut(ops)))
        ops2 = list(ops) + [{'op': 'eos'}]
        if rng.random() < 0.5: ops2.append({'op': 'yield', 'n': rng.randint(1, 3000)})
        progs.append(('after_eos_before_drain_%d' % k, cut(ops2)))
    progs.append(('after_drain', full))
    held = [{'op': 'init_handle'}, {'op': 'set_param'}, {'op': 'init'}] + [{'op': 'send', 'i': i} for i in range(4)] + [{'op': 'eos'}, {'op': 'yield', 'n': 4000}, {'op': 'get_packet', 'max': 2, 'hold': 1}, {'op': 'release_held'}]
    progs.append(('packets_held_then_released', cut(held)))
    return progs

def point_class(case):
    p = case.get('_point', '')
    if p.startswith('dec_'):
        return 'dec_mt' if case.get('threads', 1) > 1 else 'dec_st'
    return re.sub(r'_?\d+', '', p)

def c15_oracle(case, res, variant):
    V = c15_oracle0(case, res, variant)
    for v in V: v.site = v.site + '|' + point_class(case)
    return V

def c15_oracle0(case, res, variant):
    V = []
    if res.get('outcome') != 'ok': return V
    sess = res.get('sessions') or []
    for s in sess:
        if s['threads_created'] != s['threads_exited'] or s['threads_created'] != s['threads_joined']:
            V.append(Violation('C15', 'ORACLE', 'threads_remain', 'session %d: %d threads created, %d exited, %d joined after teardown' % (s['session'], s['threads_created'], s['threads_exited'], s['threads_joined']), case, variant)); break
    for s in sess:
        if s['live_blocks']:
            V.append(Violation('C15', 'ORACLE', 'memory_remains', 'session %d: %d library blocks (%d bytes) still allocated after deinit_handle; first sites %s' % (s['session'], s['live_blocks'], s['live_bytes'], [x[0] for x in s.get('live_sample', [])][:4]), case, variant)); break
    for s in sess:
        if s['sems_live']:
            V.append(Violation('C15', 'ORACLE', 'semaphores_remain', 'session %d: %d semaphores not destroyed after teardown' % (s['session'], s['sems_live']), case, variant)); break
    for s in sess:
        if s['mutexes_live']:
            V.append(Violation('C15', 'ORACLE', 'mutexes_remain', 'session %d: %d mutexes not destroyed after teardown' % (s['session'], s['mutexes_live']), case, variant)); break
    if len(sess) >= 3 and sess[-1]['live_bytes'] > sess[0]['live_bytes']:
        if sess[-1]['live_bytes'] - sess[-2]['live_bytes'] > 0 and sess[-2]['live_bytes'] - sess[-3]['live_bytes'] > 0:
            V.append(Violation('C15', 'ORACLE', 'memory_grows', 'live library bytes after sessions: %s' % [s['live_bytes'] for s in sess], case, variant))
    return V

@evaluator('single15')
def eval_single15(cases, variant):
    rs = pmap(lambda c: run_case(_unhex(c), variant), cases, variant=variant); vs = []
    for c, r in zip(cases, rs):
        if c.get('world') == 'dec':
            r2 = dict(r); r2['sessions'] = [dict(s, session=i) for i, s in enumerate(r.get('sessions') or [])]
            vs += c15_oracle(c, r2, variant)
        else:
            vs += c15_oracle(c, r, variant)
        for v in relabel(single_violations(c, r, variant), 'C15', ('TERM', 'CRASH')):
            v.site = v.site + '|' + point_class(c); vs.append(v)
    return vs, rs

@check('C15')
def check_c15(tier, seed):
    ck = Check('C15', tier, seed)
    ck.ev.rule = ('sessions torn down (release what the app holds, deinit, deinit_handle) at every protocol point: after handle creation, after rejected / accepted configuration, after init, after k sends with j packets retrieved (pictures in flight, seeded extra progress), after EOS before drain, after drain, with packets held; '
                  '1-3 sessions per process; encoder and decoder; oracle: both calls return (DEADLOCK decided), every library thread exited and joined, allocation / mutex / semaphore ledger empty after each session and not growing across sessions, no sanitizer report; distinct = distinct (teardown point, schedule)')
    ck.ev.components = core.COMPONENTS_ENC; ck.ev.assumptions = ['ledger counts objects created through pthread_mutex_init/sem_init/malloc-family calls made by library code']
    variant = 'asan' if tier == 'quick' else 'plain'; core.build(variant); core.build('plain'); rng = ck.rng; cases = []
    for rep in range(1 if tier == 'quick' else 6):
        for name, prog in c15_programs(rng, tier):
            nsess = 1 if (tier == 'quick' and not name.startswith(('after_drain', 'midstream_3'))) else rng.choice([1, 2, 3])
            c = mk(ck, {'logical_processors': rng.choice([1, 2, 4]), 'enc_mode': 8, 'hierarchical_levels': rng.choice([3, 4])}, {'kind': 'mix', 'seed': rng.randint(1, 99)}, 20, (64, 64), sim=gen.schedule(rng, allow_buggify=(rep > 0)), oracles={'decode': 0, 'parse': 0, 'order': 0})
            c['program'] = [copy.deepcopy(o) for _ in range(nsess) for o in prog]; c['_gen'] = None; c['_point'] = name; cases.append(c)
    # teardown bookkeeping depends on the geometry-dependent object counts (segment rows, tiles, pools): other picture shapes and core counts
    full = gen.program(5, 'each', recon=True)
    for (wh, lp, extra) in [((64, 256), 4, {}), ((128, 128), 2, {'tile_rows': 1}), ((64, 192), 8, {}), ((192, 64), 3, {'tile_columns': 1})] + ([] if tier == 'quick' else [((rng.choice([64, 128, 192]), rng.choice([64, 128, 256])), rng.choice([2, 4, 8]), {}) for _ in range(12)]):
        c = mk(ck, dict({'logical_processors': lp, 'enc_mode': 8}, **extra), {'kind': 'mix', 'seed': rng.randint(1, 99)}, 5, wh, sim=gen.schedule(rng, allow_buggify=False), machine={'cores': lp, 'sockets': 1}, oracles={'decode': 0, 'parse': 0, 'order': 0})
        c['program'] = [copy.deepcopy(o) for _ in range(2) for o in full]; c['_gen'] = None; c['_point'] = 'after_drain'; cases.append(c)
    # tools that allocate at run time, per picture, inside the worker kernels (intra-block-copy hash tables of screen-content key frames, palette,
    # film-grain tables, overlays, superres buffers, TPL): whole sessions repeated 2-3 times (growth clause) and cut mid-stream
    rt_cfgs = [({'screen_content_mode': 1, 'intra_period_length': 7, 'enc_mode': 6}, 'text', (128, 64)), ({'screen_content_mode': 1, 'intrabc_mode': 1, 'palette_level': 6, 'intra_period_length': 5, 'enc_mode': 8}, 'text', (64, 64)),
               ({'film_grain_denoise_strength': 12}, 'grainy', (128, 128)), ({'enable_overlays': 1, 'hierarchical_levels': 3, 'recon_enabled': 0}, 'moving', (64, 64)), ({'superres_mode': 1, 'superres_denom': 12, 'enable_tpl_la': 0}, 'moving', (128, 128)),
               ({'rate_control_mode': 2, 'intra_period_length': 15, 'recon_enabled': 0}, 'moving', (64, 64)), ({'encoder_bit_depth': 10, 'tile_columns': 1}, 'mix', (128, 128))]
    for k, (cfgo, kind, wh) in enumerate(rt_cfgs if tier == 'quick' else rt_cfgs * 3):
        n = 16 if cfgo.get('intra_period_length') else 10
        recon = bool(dict(BASE_CFG, **cfgo).get('recon_enabled'))
        fullp = gen.program(n, 'each', recon=recon)
        c = mk(ck, dict({'logical_processors': rng.choice([1, 2, 4]), 'enc_mode': 8}, **cfgo), {'kind': kind, 'seed': rng.randint(1, 99)}, n, wh, sim=gen.schedule(rng, allow_buggify=False), oracles={'decode': 0, 'parse': 0, 'order': 0})
        c['program'] = [copy.deepcopy(o) for _ in range(3 if k % 2 == 0 else 2) for o in fullp]; c['_gen'] = None; c['_point'] = 'after_drain'; cases.append(c)
        if tier != 'quick' or k % 2 == 1:
            ops = [{'op': 'init_handle'}, {'op': 'set_param'}, {'op': 'init'}] + [x for i in range(n) for x in ({'op': 'send', 'i': i}, {'op': 'get_packet', 'max': 100}, {'op': 'get_recon', 'max': 100})] + [{'op': 'yield', 'n': rng.randint(1, 2000)}, {'op': 'deinit'}, {'op': 'deinit_handle'}, {'op': 'session_end'}]
            c2 = copy.deepcopy(c); c2['program'] = [copy.deepcopy(o) for _ in range(2) for o in ops]; c2['_point'] = 'midstream_%d_sends_100_polled' % n; cases.append(c2)
    st = make_streams(['base8', 'tiles2x2'], ck)
    for nm, s in st.items():
        for th in ([1, 4] if tier == 'quick' else [1, 2, 4, 8]):
            for after in ([-1, 0, 3] if tier == 'quick' else [-1, 0, 1, 2, 5]):
                c = dec_case(s, th, sim=gen.schedule(rng, allow_buggify=False), extra={'teardown_after': after, 'sessions': 2, '_point': 'dec_after_%d_tus_threads_%d' % (after, th)}); cases.append(c)
    rs = pmap(lambda c: run_case(c, variant), cases, variant=variant)
    for c, r in zip(cases, rs):
        ck.ev.add_run(c, r, (c['_point'], (r.get('sim') or {}).get('trace_hash')) if r.get('outcome') == 'ok' else None)
        ck.ev.fault('teardown_at:' + c['_point'].split('_sends')[0].rstrip('0123456789_'))
        vs, _ = [], None
        if c.get('world') == 'dec':
            r2 = dict(r); r2['sessions'] = [dict(s, session=i) for i, s in enumerate(r.get('sessions') or [])]; vs += c15_oracle(c, r2, variant)
        else:
            vs += c15_oracle(c, r, variant)
        for v in relabel(single_violations(c, r, variant), 'C15', ('TERM', 'CRASH')):
            v.site = v.site + '|' + point_class(c); vs.append(v)
        for v in vs:
            if c.get('world') == 'dec': v.case = inline_stream(v.case)
            ck.add(v, 'single15')
    rc = ck.finish(); cleanup_streams(); return rc

# ---- C16 ----------------------------------------------------------------------------------------------------
# after a failed set_parameter the application retries it once (a transient allocation failure): the failed call must have left the handle usable
SETUP_PROG = [{'op': 'init_handle'}, {'op': 'set_param'}, {'op': 'set_param', 'retry_only': 1}, {'op': 'init'}, {'op': 'deinit'}, {'op': 'deinit_handle'}, {'op': 'session_end'}]

def c16_oracle(case, res, variant):
    """the API call during which the fault fired returns an error; teardown completes; ledger empty"""
    V = []; mem = case.get('mem', {}); k = mem.get('alloc_fail_at') or 0; j = mem.get('thread_fail_at') or 0
    what = 'allocation #%d' % k if k else 'thread creation #%d' % j
    site = res.get('last_failed_site', '0')
    fired = (res.get('sim') or {}).get('alloc_faults_fired', 0) + (res.get('sim') or {}).get('thread_faults_fired', 0)
    if res.get('outcome') != 'ok' or not fired:
        return V
    h = res.get('history', [])
    # op during which the fault fired: first op whose alloc counter (after) >= k
    op = None
    if k:
        for e in h:
            if e[5] >= k and e[1] in ('init_handle', 'set_param', 'init'):
                op = e; break
    else:
        op = next((e for e in h if e[1] == 'init'), None)
    if op is not None and op[2] == 0:
        V.append(Violation('C16', 'ORACLE', 'fault_swallowed:%s' % op[1], '%s failed during %s, which returned EB_ErrorNone' % (what, op[1]), case, variant, extra={'alloc_site': site}))
    sess = res.get('sessions') or []
    if sess:
        s = sess[-1]
        if s['live_blocks']:
            V.append(Violation('C16', 'ORACLE', 'leak_after_failed_%s' % (op[1] if op else '?'), '%s failed during %s: %d library blocks (%d bytes) remain after teardown' % (what, op[1] if op else '?', s['live_blocks'], s['live_bytes']), case, variant, extra={'alloc_site': site}))
        if s['threads_created'] != s['threads_joined']:
            V.append(Violation('C16', 'ORACLE', 'threads_after_failed_%s' % (op[1] if op else '?'), '%s: %d threads created, %d joined after teardown' % (what, s['threads_created'], s['threads_joined']), case, variant))
    return V

@evaluator('single16')
def eval_single16(cases, variant):
    rs = pmap(lambda c: run_case(c, variant), cases, variant=variant); vs = []
    for c, r in zip(cases, rs):
        vs += c16_oracle(c, r, variant)
        for v in relabel(single_violations(c, r, variant), 'C16', ('TERM', 'CRASH')):
            v.site = c16_crash_site(c, r, v); vs.append(v)
    return vs, rs

def c16_crash_site(c, r, v):
    # root-cause-level: which phase the fault was injected in (from the census) + crash site
    ph = c.get('_phase', '?')
    return '%s|fault_in_%s' % (v.site, ph)

# generic allocation/OS-object helpers: the function that *uses* them is the one whose error handling is at stake
_ALLOC_HELPERS = ('svt_create_mutex@', 'svt_create_semaphore@', 'svt_create_thread@', 'svt_create_cond_var@', 'svt_aom_malloc@', 'svt_aom_memalign@', 'svt_aom_calloc@', 'svt_aom_memset16@')
def fault_fn(r):
    """library function that asked for the resource the simulator refused (innermost non-helper frame of the SIMFAULT provenance)"""
    fr = core.fault_frames(r)
    for f in fr:
        if not f.startswith(_ALLOC_HELPERS):
            return re.sub(r'\.(isra|constprop|part|cold)\.\d+', '', f)
    return re.sub(r'\.(isra|constprop|part|cold)\.\d+', '', fr[0]) if fr else 'unknown'

def dec_crash_site(r, v):
    # the decoder drops the error of its frame-time allocators, so where it later crashes is incidental: the root cause is the
    # allocating function whose failure is not propagated (DESIGN.md 13.5)
    return '%s|fault_in_decoder|alloc@%s' % (v.site, fault_fn(r))

@check('C16')
def check_c16(tier, seed):
    ck = Check('C16', tier, seed, level='fault_enumeration')
    ck.ev.rule = ('census run (fault-free, canonical schedule) numbers the K library allocations made during init_handle, set_parameter and init and records each allocation call site; then alloc_fail(k) runs: quick = for every distinct site its first, last and one seeded middle occurrence plus the first 60 k; '
                  'thorough = every site x up to 8 occurrences, then a further 1200 k per round (VERIF_ROUNDS=0: every k); thread_create_fail(j) for every library thread; decoder: every k of init_handle/set_parameter/init and the first frames; '
                  'oracle: the call during which the fault fired returns a non-success code, deinit/deinit_handle complete, ledger empty, no crash/hang/sanitizer report; distinct = distinct (k or j, phase)')
    ck.ev.components = core.COMPONENTS_ENC; ck.ev.assumptions = ['allocation numbering is stable because the schedule is the fixed non-preemptive one', 'one fault per run']
    variant = 'plain'; core.build(variant); rng = ck.rng
    # second configuration: other constructors run (tiles, 10-bit/16-bit buffers, overlays, more worker contexts); quick samples only the first occurrence of each of its allocation sites
    cfgs = [({'logical_processors': 1, 'enc_mode': 8}, (64, 64)), ({'logical_processors': 4, 'enc_mode': 6, 'tile_columns': 1, 'encoder_bit_depth': 10, 'enable_overlays': 1, 'hierarchical_levels': 3}, (128, 128))]
    total_k = 0; enumerated = 0
    for cfgo, wh in cfgs:
        base = mk(ck, dict(cfgo, recon_enabled=1), {'kind': 'mix', 'seed': 3}, 0, wh, oracles={'decode': 0, 'parse': 0, 'order': 0}); base['program'] = copy.deepcopy(SETUP_PROG); base['_gen'] = None
        cen = copy.deepcopy(base); cen['mem'] = {'census': 1}
        r = run_case(cen, variant)
        if r.get('outcome') != 'ok':
            ck.ev.notes.append('census failed: %s' % r.get('outcome')); continue
        hist = {e[1]: e[5] for e in r['history']}
        k_ih, k_sp, k_in = hist.get('init_handle', 0), hist.get('set_param', 0), hist.get('init', 0)
        K = k_in; total_k += K; nthreads = r['sim']['thread_create_counter']
        ck.ev.extra.setdefault('census', []).append({'cfg': cfgo, 'allocations': {'init_handle': k_ih, 'set_parameter': k_sp - k_ih, 'init': k_in - k_sp}, 'distinct_sites': len(r.get('sites', [])), 'threads': nthreads})
        def phase(k): return 'init_handle' if k <= k_ih else ('set_param' if k <= k_sp else 'init')
        second_quick = (tier == 'quick' and cfgo is not cfgs[0][0])
        ks = set(range(1, 31 if tier == 'quick' else 61)) if not second_quick else set()
        per_site = 2 if tier == 'quick' else 8
        for s in r.get('sites', []):
            site, cnt, first, last = s
            ks.add(first)
            if second_quick:
                if rng.random() < 0.5: ks.discard(first)
                continue
            if tier != 'quick' or rng.random() < 0.25: ks.add(last)   # quick: every site's first occurrence, a seeded quarter of the last ones
            if cnt > 2:
                for _ in range(max(0, min(per_site - 2, cnt - 2))): ks.add(rng.randint(first, last))
        ks = sorted(k for k in ks if 1 <= k <= K)
        if tier != 'quick':
            rest = [k for k in range(1, K + 1) if k not in set(ks)]; rng.shuffle(rest)
        cases = []
        for k in ks:
            c = copy.deepcopy(base); c['mem'] = {'alloc_fail_at': k}; c['_phase'] = phase(k); cases.append(c)
        for j in (range(1, nthreads + 1) if not second_quick else range(1, nthreads + 1, 3)):
            c = copy.deepcopy(base); c['mem'] = {'thread_fail_at': j}; c['_phase'] = 'init(thread)'; cases.append(c)
        def consume(cases):
            rs = pmap(lambda c: run_case(c, variant), cases, variant=variant)
            for c, r in zip(cases, rs):
                fired = (r.get('sim') or {}).get('alloc_faults_fired', 0) + (r.get('sim') or {}).get('thread_faults_fired', 0)
                ck.ev.add_run(c, r, (c['mem'].get('alloc_fail_at'), c['mem'].get('thread_fail_at'), c['_phase'], str(cfgo)) if fired or r.get('outcome') != 'ok' else None)
                if not fired and r.get('outcome') == 'ok': ck.ev.probe('fault_not_reached')
                vs = c16_oracle(c, r, variant)
                for v in relabel(single_violations(c, r, variant), 'C16', ('TERM', 'CRASH')):
                    v.site = c16_crash_site(c, r, v); vs.append(v)
                for v in vs: ck.add(v, 'single16')
        consume(cases); enumerated += len(cases)
        if tier != 'quick':
            n_rest = len(rest)
            if ck.rounds > 0: rest = rest[:ck.rounds * 1200]   # a fixed share of the remaining k (VERIF_ROUNDS scales it; VERIF_ROUNDS=0 enumerates every k)
            complete = len(rest) == n_rest
            while rest:
                chunk, rest = rest[:400], rest[400:]
                cs = []
                for k in chunk:
                    c = copy.deepcopy(base); c['mem'] = {'alloc_fail_at': k}; c['_phase'] = phase(k); cs.append(c)
                consume(cs); enumerated += len(cs)
            ck.ev.extra['exhaustive'] = complete
    # decoder: all k
    st = make_streams(['base8'], ck)
    if 'base8' in st:
        cen = dec_case(st['base8'], 2, extra={'max_tus': 3}, mem={'census': 1}); r = run_case(cen, variant)
        Kd = (r.get('sim') or {}).get('alloc_counter', 0); total_k += Kd
        ck.ev.extra['decoder_allocations'] = Kd
        ks = list(range(1, Kd + 1))
        if tier == 'quick' and len(ks) > 120: ks = sorted(set(list(range(1, 40)) + rng.sample(ks, 80)))
        cases = []
        for k in ks:
            c = dec_case(st['base8'], 2, extra={'max_tus': 3, '_phase': 'decoder'}, mem={'alloc_fail_at': k}); cases.append(c)
        rs = pmap(lambda c: run_case(c, variant), cases, variant=variant)
        for c, r in zip(cases, rs):
            fired = (r.get('sim') or {}).get('alloc_faults_fired', 0)
            ck.ev.add_run(c, r, ('dec', c['mem']['alloc_fail_at']) if fired or r.get('outcome') != 'ok' else None)
            vs = []
            if r.get('outcome') == 'ok' and fired:
                L = r.get('ledger', {})
                if L.get('live_blocks'): vs.append(Violation('C16', 'ORACLE', 'dec_leak_after_failed_alloc', 'decoder: allocation #%d failed: %d library blocks remain after teardown' % (c['mem']['alloc_fail_at'], L['live_blocks']), inline_stream(c), variant))
                if L.get('threads_created') != L.get('threads_joined'): vs.append(Violation('C16', 'ORACLE', 'dec_threads_after_failed_alloc', 'decoder: allocation #%d failed: threads created/joined %s/%s' % (c['mem']['alloc_fail_at'], L.get('threads_created'), L.get('threads_joined')), inline_stream(c), variant))
                errs = [e for e in r.get('history', []) if e[1] != 0]
                if not errs: vs.append(Violation('C16', 'ORACLE', 'dec_fault_swallowed', 'decoder: allocation #%d failed but every API call returned success' % c['mem']['alloc_fail_at'], inline_stream(c), variant))
            for v in relabel(single_violations(c, r, variant), 'C16', ('TERM', 'CRASH')):
                v.site = dec_crash_site(r, v); v.case = inline_stream(v.case); vs.append(v)
            for v in vs: ck.add(v, 'single16dec')
        enumerated += len(cases)
    ck.ev.extra['K_total'] = total_k; ck.ev.extra['faults_enumerated'] = enumerated
    rc = ck.finish(); cleanup_streams(); return rc

@evaluator('single16dec')
def eval_single16dec(cases, variant):
    cs = [_unhex(c) for c in cases]
    rs = pmap(lambda c: run_case(c, variant), cs, variant=variant); vs = []
    for c0, c, r in zip(cases, cs, rs):
        fired = (r.get('sim') or {}).get('alloc_faults_fired', 0)
        if r.get('outcome') == 'ok' and fired:
            L = r.get('ledger', {})
            if L.get('live_blocks'): vs.append(Violation('C16', 'ORACLE', 'dec_leak_after_failed_alloc', 'decoder: allocation #%d failed: %d library blocks remain after teardown' % (c['mem']['alloc_fail_at'], L['live_blocks']), c0, variant))
            if L.get('threads_created') != L.get('threads_joined'): vs.append(Violation('C16', 'ORACLE', 'dec_threads_after_failed_alloc', 'threads', c0, variant))
            if not [e for e in r.get('history', []) if e[1] != 0]: vs.append(Violation('C16', 'ORACLE', 'dec_fault_swallowed', 'decoder: allocation #%d failed but every API call returned success' % c['mem']['alloc_fail_at'], c0, variant))
        for v in relabel(single_violations(c, r, variant), 'C16', ('TERM', 'CRASH')):
            v.site = dec_crash_site(r, v); v.case = c0; vs.append(v)
    return vs, rs

# ---- C17 ----------------------------------------------------------------------------------------------------
def inst(cfgo, cont, n, wh, delay, tail_delay=0):
    c = mk(None, dict(cfgo, recon_enabled=1), cont, n, wh)
    prog = ([{'op': 'yield', 'n': delay}] if delay else []) + c['program']
    if tail_delay:
        i = next(k for k, o in enumerate(prog) if o['op'] == 'deinit'); prog.insert(i, {'op': 'yield', 'n': tail_delay})
    return {'cfg': c['cfg'], 'content': c['content'], 'program': prog}

def with_barriers(insts):
    """steady-state interference only: every encoder instance finishes svt_av1_enc_init before any of them submits a picture, and none is torn down before all have drained"""
    out = copy.deepcopy(insts); n = sum(1 for it in out if it.get('kind') != 'dec')
    for it in out:
        if it.get('kind') == 'dec': continue
        p = it['program']; i = next(k for k, o in enumerate(p) if o['op'] == 'init'); p.insert(i + 1, {'op': 'barrier', 'id': 0, 'n': n})
        j = next(k for k, o in enumerate(p) if o['op'] == 'deinit'); p.insert(j, {'op': 'barrier', 'id': 1, 'n': n})
    return out

@evaluator('multi17')
def eval_multi17(cases, variant):
    """cases = [solo_0, solo_1, ..., concurrent]"""
    rs = pmap(lambda c: run_case(_unhex(c), variant), cases, variant=variant); vs = []
    conc, cr = cases[-1], rs[-1]
    for v in relabel(single_violations(conc, cr, variant), 'C17', ('TERM', 'CRASH')):
        v.family = cases; vs.append(v)
    if cr.get('outcome') == 'ok':
        for i, (sc, sr) in enumerate(zip(cases[:-1], rs[:-1])):
            if sr.get('outcome') != 'ok': continue
            ci = (cr['instances'] if 'instances' in cr else [cr])[i]
            if (ci.get('stream_hash'), ci.get('recon_hash')) != (sr.get('stream_hash'), sr.get('recon_hash')):
                kind, det = diff_detail(sr, ci)
                vs.append(Violation('C17', 'DIFF', 'instance_output:' + kind, 'instance %d of %d (%s) differs from its solo run: %s' % (i, len(cases) - 1, sc.get('world') == 'multi' and 'decoder' or 'encoder', det), conc, variant, family=cases))
    return vs, rs

@check('C17')
def check_c17(tier, seed):
    ck = Check('C17', tier, seed)
    ck.ev.rule = ('family = solo run of each instance + the 2-3 instances concurrently in one simulated process: encoder instances (different SB size, bit depth, preset, cpu-flag mask, resolution, thread count) and decoder instances (1-4 threads, different streams/sizes), '
                  'started and torn down at seeded relative decision numbers so that one instance\'s init/deinit_handle lands inside another\'s encode or decode; enc+enc, enc+dec and dec+dec mixes; '
                  'oracle: each instance\'s packets and recon (decoder: output pictures) equal its solo result, no sanitizer report, no deadlock; interference is decided through its consequences only; distinct = distinct (instance set, stagger, decision trace)')
    ck.ev.components = dict(core.COMPONENTS_ENC, real=core.COMPONENTS_ENC['real'] + core.COMPONENTS_DEC['real']); ck.ev.assumptions = ['a race with no observable effect is invisible to a serialising scheduler']
    variant = 'asan'; core.build(variant); core.build('plain'); rng = ck.rng
    pool = [({'enc_mode': 8, 'logical_processors': 1}, (64, 64)), ({'enc_mode': 8, 'super_block_size': 128, 'logical_processors': 2}, (128, 128)), ({'enc_mode': 7, 'encoder_bit_depth': 10, 'logical_processors': 1}, (64, 64)),
            ({'enc_mode': 6, 'use_cpu_flags': 0x3f, 'logical_processors': 1}, (72, 66)), ({'enc_mode': 8, 'use_cpu_flags': 0, 'logical_processors': 2}, (64, 64)), ({'enc_mode': 5, 'logical_processors': 4}, (96, 64)),
            # different hierarchy depths, prediction structures and slow/fast presets side by side (tables derived per preset and per hierarchy)
            ({'enc_mode': 8, 'hierarchical_levels': 3, 'logical_processors': 1}, (64, 64)), ({'enc_mode': 4, 'logical_processors': 2}, (64, 64)), ({'enc_mode': 6, 'hierarchical_levels': 2, 'logical_processors': 1}, (64, 64)),
            ({'enc_mode': 7, 'pred_structure': 1, 'logical_processors': 1}, (64, 64)), ({'enc_mode': 3, 'hierarchical_levels': 4, 'logical_processors': 2}, (64, 64))]
    st = make_streams(['base8', 'wide64', 'ten', 'tiles1x2'], ck)   # streams the multi-threaded decoder decodes correctly on its own
    def dec_inst():
        nm = rng.choice(sorted(st)); s = st[nm]
        return {'kind': 'dec', 'stream': s['path'], 'w': s['w'], 'h': s['h'], 'bd': s['bd'], 'threads': rng.choice([1, 1, 2, 4]), 'delay': rng.choice([0, 0, 200, 1500, 6000]), '_stream': nm, 'sessions': rng.choice([1, 1, 2])}
    fams = []
    nfam = 16 if tier == 'quick' else 48
    fixed = [  # mutation-sensitive fixed families: two encoders that are inside the same stage (TPL, temporal filtering, restoration search, mode decision) at the same time
        [({'enc_mode': 8, 'hierarchical_levels': 3, 'logical_processors': 1}, (64, 64), 10), ({'enc_mode': 8, 'hierarchical_levels': 3, 'logical_processors': 1}, (64, 64), 10)],
        [({'enc_mode': 6, 'hierarchical_levels': 3, 'logical_processors': 2}, (64, 64), 9), ({'enc_mode': 8, 'logical_processors': 1}, (72, 66), 18)],
        [({'enc_mode': 7, 'hierarchical_levels': 3, 'logical_processors': 1, 'encoder_bit_depth': 10}, (64, 64), 9), ({'enc_mode': 5, 'hierarchical_levels': 2, 'logical_processors': 2}, (64, 64), 6)],
        [({'enc_mode': 8, 'hierarchical_levels': 3, 'logical_processors': 1}, (64, 64), 9), ({'enc_mode': 4, 'logical_processors': 2}, (64, 64), 17)],
    ]
    for k in range(nfam + len(fixed)):
        if k >= nfam:
            insts = [inst(cfgo, {'kind': 'moving', 'seed': 30 + k + j}, n, wh, delay=0, tail_delay=0) for j, (cfgo, wh, n) in enumerate(fixed[k - nfam])]
            sim = {'policy': 'rand', 'sw': 300, 'seed': 1000 + k}
            conc = {'world': 'multi', 'instances': insts, 'sim': sim, 'machine': {'cores': 4, 'sockets': 1}, 'oracles': {'decode': 0, 'parse': 0, 'seg_events': 0}, '_ndec': 0, '_fixed': 1, '_fam': k - nfam}
            solos = [{'world': 'enc', 'cfg': it['cfg'], 'content': it['content'], 'program': [o for o in it['program'] if o['op'] != 'yield'], 'sim': {'policy': 'np', 'seed': 1}, 'machine': {'cores': 4, 'sockets': 1}, 'oracles': {'decode': 0, 'parse': 0, 'order': 0}} for it in insts]
            for key, per in (('_fine', 2000), ('_mem', 3000), ('_mem', 15000)):   # function-entry preemption and memory-access preemption (hot kernels are excluded from the former)
                cc = copy.deepcopy(conc); cc[key] = per; fams.append(copy.deepcopy(solos) + [cc])
            ck.ev.probe('mix:ee(fixed)'); continue
        mix = ['ee', 'ed', 'dd', 'ee', 'eed', 'edd', 'ee', 'ed', 'ed', 'ee', 'eed', 'ed'][k % 12] if st else 'ee'
        m = len(mix); picks = rng.sample(pool, mix.count('e')); insts = []
        for (cfgo, wh) in picks:
            n = rng.randint(2, 6) if k % 3 else rng.randint(17, 20)
            insts.append(inst(cfgo, {'kind': rng.choice(['mix', 'moving']), 'seed': rng.randint(1, 99)}, n, wh, delay=rng.choice([0, 0, 200, 1500, 4000, 9000]), tail_delay=rng.choice([0, 0, 500, 3000])))
        for _ in range(mix.count('d')): insts.append(dec_inst())
        rng.shuffle(insts)
        sim = gen.schedule(rng, horizon=12000, nthreads=80, allow_buggify=False)
        conc = {'world': 'multi', 'instances': insts, 'sim': sim, 'machine': {'cores': 4, 'sockets': 1}, 'oracles': {'decode': 0, 'parse': 0, 'seg_events': 0}, '_ndec': mix.count('d')}
        solos = []
        for it in insts:
            if it.get('kind') == 'dec':
                s = {'world': 'multi', 'instances': [dict(it, delay=0)], 'sim': {'policy': 'np', 'seed': 1}, 'machine': {'cores': 4, 'sockets': 1}, 'oracles': {'decode': 0, 'parse': 0}}
            else:
                s = {'world': 'enc', 'cfg': it['cfg'], 'content': it['content'], 'program': [o for o in it['program'] if o['op'] != 'yield'], 'sim': {'policy': 'np', 'seed': 1}, 'machine': {'cores': 4, 'sockets': 1}, 'oracles': {'decode': 0, 'parse': 0, 'order': 0}}
            solos.append(s)
        fams.append(solos + [conc]); ck.ev.probe('mix:' + ''.join(sorted(mix)))
    # half of the families run on the fine-grained build: forced preemptions at function boundaries let two instances interleave
    # inside code that contains no synchronisation operation at all (e.g. a kernel working on process-global scratch memory)
    core.build('fine'); core.build('mem'); fvar = []
    for k, fam in enumerate(fams):
        fv = 'mem' if fam[-1].get('_mem') else ('fine' if (k % 2 == 0 or fam[-1].get('_fixed')) else variant)
        if fv != 'mem' and not fam[-1].get('_fixed') and k % 4 == 1 and not fam[-1].get('_ndec'): fv = 'mem'   # a quarter of the generated encoder families under memory-access preemption
        fvar.append(fv)
        if fv == 'fine': fam[-1]['sim'] = dict(fam[-1]['sim'], fine=fam[-1].get('_fine') or rng.choice([2000, 8000, 30000])); ck.ev.fault('fine_preemption')
        if fv == 'mem': fam[-1]['sim'] = dict(fam[-1]['sim'], mem=fam[-1].get('_mem') or rng.choice([3000, 15000, 60000])); ck.ev.fault('mem_preemption')
        # the fixed families look at steady-state interference: every instance finishes svt_av1_enc_init before any of them submits a picture
        # (the generated families keep their seeded staggering, so that one instance's init/teardown also lands inside another's encode)
        if fam[-1].get('_fixed'): fam[-1]['instances'] = with_barriers(fam[-1]['instances'])
    flat = [(c, fv) for f, fv in zip(fams, fvar) for c in f]
    rs = pmap(lambda cv: run_case(cv[0], cv[1]), flat, variant=variant); i = 0
    for fam, variant in zip(fams, fvar):
        frs = rs[i:i + len(fam)]; i += len(fam); conc, cr = fam[-1], frs[-1]
        ifam = [inline_stream(c) for c in fam]
        ck.ev.probe('fine_preemptions', (cr.get('sim') or {}).get('fine_preemptions', 0)); ck.ev.probe('mem_preemptions', (cr.get('sim') or {}).get('mem_preemptions', 0))
        for c, r in zip(fam, frs): ck.ev.add_run(c, r, _default_key(c, r) if c is not conc else ((r.get('sim') or {}).get('trace_hash') if r.get('outcome') == 'ok' else None))
        ck.ev.probe('instances=%d' % (len(fam) - 1))
        for v in relabel(single_violations(conc, cr, variant), 'C17', ('TERM', 'CRASH')):
            v.family = ifam; v.case = ifam[-1]; ck.add(v, 'multi17')
        if cr.get('outcome') == 'ok':
            cis = cr['instances'] if 'instances' in cr else [cr]
            for k, (sc, sr) in enumerate(zip(fam[:-1], frs[:-1])):
                if sr.get('outcome') != 'ok': ck.ev.notes.append('solo run failed: %s' % sr.get('outcome')); continue
                ci = cis[k]
                if (ci.get('stream_hash'), ci.get('recon_hash')) != (sr.get('stream_hash'), sr.get('recon_hash')):
                    kind, det = diff_detail(sr, ci)
                    ck.add(Violation('C17', 'DIFF', 'instance_output:' + kind, 'instance %d of %d (%s) differs from its solo run: %s' % (k, len(fam) - 1, sc.get('world') == 'multi' and 'decoder' or 'encoder', det), ifam[-1], variant, family=ifam), 'multi17')
    rc = ck.finish(); cleanup_streams(); return rc
