"""Core of the verification driver: building, running simulated worlds, classification,
the reproduce-twice gate, minimisation, replay files, known findings and evidence.
Stdlib only.  DESIGN.md sections 9-11."""
import json, os, re, subprocess, sys, time, hashlib, shutil, tempfile, threading, random, copy
from concurrent.futures import ThreadPoolExecutor

ROOT = os.path.dirname(os.path.dirname(os.path.dirname(os.path.abspath(__file__))))
REPO = os.environ.get('VERIF_REPO', '/repo')
BUILD = os.path.join(ROOT, os.environ.get('VERIF_BUILD_DIR', '.build'))   # alternative build dirs let a scratch copy of the repository be checked in parallel
RUN_DIR = os.path.join(BUILD, 'run')
# checks of a scratch copy (VERIF_BUILD_DIR set) must not overwrite the evidence of the real tree
EVIDENCE_DIR = os.environ.get('VERIF_EVIDENCE_DIR') or os.path.join(ROOT, 'evidence' if 'VERIF_BUILD_DIR' not in os.environ else 'evidence-' + os.environ['VERIF_BUILD_DIR'].strip('.'))   # VERIF_EVIDENCE_DIR: development sweeps with other seeds must not overwrite the registered evidence
# measured in this VM: page-fault bound, throughput saturates at ~8 plain / ~4 ASan processes (DESIGN.md section 11)
NCPU = int(os.environ.get('VERIF_JOBS', '10'))
JOBS = {'plain': NCPU, 'fine': NCPU, 'mem': NCPU, 'asan': int(os.environ.get('VERIF_JOBS_ASAN', '5'))}
SYMBOLIZER = '/usr/bin/llvm-symbolizer-14'

# ------------------------------------------------------------------------------------------------
def log(*a):
    print(*a, file=sys.stderr, flush=True)

_built = {}
def _thp():
    try:
        with open('/sys/kernel/mm/transparent_hugepage/enabled', 'w') as f:
            f.write('always')
    except Exception:
        pass

def build(variant):
    """(Re)build static libs + harness for a variant from /repo's current working tree."""
    if _built.get(variant):
        return
    _thp()
    t0 = time.time()
    env = dict(os.environ, VERIF_REPO=REPO)
    for script in ('build-lib.sh', 'build-harness.sh'):
        r = subprocess.run([os.path.join(ROOT, 'bin', script), variant], env=env, stdout=subprocess.PIPE, stderr=subprocess.STDOUT, text=True)
        if r.returncode != 0:
            log(r.stdout[-4000:])
            raise SystemExit('BUILD FAILED (%s %s): the tree does not compile with hooks on' % (script, variant))
    _built[variant] = True
    log('[build %s: %.1fs]' % (variant, time.time() - t0))

def binary(variant):
    return os.path.join(BUILD, variant, 'simworld')

# ------------------------------------------------------------------------------------------------
_tmp_lock = threading.Lock()
_tmp_counter = [0]
def _tmpdir():
    with _tmp_lock:
        _tmp_counter[0] += 1
        n = _tmp_counter[0]
    d = os.path.join(RUN_DIR, '%d_%d' % (os.getpid(), n))
    os.makedirs(d, exist_ok=True)
    return d

ASAN_RE = re.compile(r'ERROR: AddressSanitizer: ([\w-]+)')
FRAME_RE = re.compile(r'#(\d+) 0x[0-9a-f]+ in (\S+) (\S+?):(\d+)')
UBSAN_RE = re.compile(r'(\S+?):(\d+):(\d+): runtime error: (.*)')

_FN_SUFFIX = re.compile(r'\.(isra|constprop|part|cold|lto_priv)(\.\d+)?')
def _fn(name):
    """function name without compiler-generated clone suffixes (predict_bits.part.0.isra.0 -> predict_bits): they change with unrelated edits"""
    return _FN_SUFFIX.sub('', name)

def _asan_site(stderr):
    """normalised site of an ASan report: kind + first frames that are in the repository's sources"""
    m = ASAN_RE.search(stderr)
    kind = m.group(1) if m else 'unknown'
    if kind == 'attempting':   # "attempting double-free on ..." / "attempting free on address which was not malloc()-ed"
        m2 = re.search(r'AddressSanitizer: attempting ([\w-]+)', stderr)
        kind = m2.group(1) if m2 else kind
    frames = []
    # only the faulting stack (first block of "#n" lines after the ERROR line)
    start = m.end() if m else 0
    blk = stderr[start:]
    first = blk.find('    #0 ')
    if first >= 0:
        end = blk.find('\n\n', first)
        blk = blk[first:end if end > 0 else len(blk)]
    for fm in re.finditer(r'#(\d+) 0x[0-9a-f]+ in (\S+) ([^\s:]+)', blk):
        fn, path = fm.group(2), fm.group(3)
        if '/Source/' in path:
            frames.append('%s@%s' % (_fn(fn), os.path.basename(path)))
        if len(frames) >= 2:
            break
    # the access kind (READ/WRITE) is part of the signature
    rw = re.search(r'\n(READ|WRITE) of size (\d+)', stderr)
    return kind, (frames[0] if frames else 'unknown'), (rw.group(1) if rw else ''), frames

_fault_cache = {}
def fault_frames(res):
    """provenance of an injected resource failure: the library functions (innermost first) that asked for the allocation or thread
    that was refused (SIMFAULT line printed by the simulator when the fault fires, so it survives a later crash)"""
    fr = res.get('fault_raw')
    if not fr:
        return []
    key = (fr['variant'], fr['pcs'])
    if key in _fault_cache:
        return _fault_cache[key]
    try:
        p = subprocess.run([SYMBOLIZER, '--obj=' + binary(fr['variant']), '--functions=linkage', '--no-inlines', '--relative-address'] + fr['pcs'].split(','), capture_output=True, text=True, timeout=60)
    except Exception:
        return []
    frames = []
    for b in [b for b in p.stdout.split('\n\n') if b.strip()]:
        ls = b.strip().split('\n')
        if len(ls) >= 2 and '/Source/' in ls[1]:
            frames.append('%s@%s' % (_fn(ls[0]), os.path.basename(ls[1].split(':')[0])))
    _fault_cache[key] = frames
    return frames

def _symbolize_crash(stderr, variant):
    """function-level crash site on the sanitizer-free build: the harness prints pc + frame-pointer chain (image-relative),
    llvm-symbolizer resolves them; returns ['func@file', ...] for frames inside the repository's sources"""
    m = re.search(r'SIMCRASH sig=\d+ pcs=([0-9a-fx,]+)', stderr)
    if not m:
        return []
    addrs = m.group(1).split(',')
    try:
        p = subprocess.run([SYMBOLIZER, '--obj=' + binary(variant), '--functions=linkage', '--no-inlines', '--relative-address'] + addrs, capture_output=True, text=True, timeout=60)
    except Exception:
        return []
    out = [b for b in p.stdout.split('\n\n') if b.strip()]
    frames = []
    for b in out:
        ls = b.strip().split('\n')
        if len(ls) >= 2 and '/Source/' in ls[1]:
            frames.append('%s@%s' % (_fn(ls[0]), os.path.basename(ls[1].split(':')[0])))
    return frames

_WAIT_HELPERS = ('svt_block_on_semaphore', 'svt_block_on_mutex', 'svt_wait_cond_var', 'svt_get_full_object', 'svt_get_empty_object', 'svt_get_full_object_non_blocking')
def _deadlock_site(blocked, variant):
    """wait-for signature of a decided deadlock: for every blocked task the library function that waits and what it waits for
    (empty = a free pool object, full = a posted object, mutex/cond); worker tasks idling for input in their kernel loop are left out"""
    addrs = []; idx = []
    for t, s in blocked:
        for a in s.split(','):
            addrs.append(a); idx.append(t)
    try:
        p = subprocess.run([SYMBOLIZER, '--obj=' + binary(variant), '--functions=linkage', '--no-inlines', '--relative-address'] + addrs, capture_output=True, text=True, timeout=120)
    except Exception:
        return None, None
    out = [b for b in p.stdout.split('\n\n') if b.strip()]
    if len(out) != len(addrs):
        return None, None
    per = {}
    for t, b in zip(idx, out):
        ls = b.strip().split('\n')
        if len(ls) >= 2 and '/Source/' in ls[1]:
            per.setdefault(t, []).append(_fn(ls[0]))
    waits = []
    for t, fr in sorted(per.items()):
        prim = next((f for f in fr if f in _WAIT_HELPERS[3:]), None) or next((f for f in fr if f in _WAIT_HELPERS), '?')
        waiter = next((f for f in fr if f not in _WAIT_HELPERS), '?')
        kind = {'svt_get_empty_object': 'empty', 'svt_get_full_object': 'full', 'svt_block_on_mutex': 'mutex', 'svt_wait_cond_var': 'cond', 'svt_block_on_semaphore': 'sem'}.get(prim, prim)
        if kind == 'full' and waiter.endswith('_kernel') and t != 0:
            continue
        waits.append('%s/%s' % (waiter, kind))
    if not waits:
        return None, None
    return 'deadlock:' + '+'.join(sorted(set(waits))), ' '.join(waits)

def _livelock_site(blocked, variant):
    """where the tasks of a decided livelock spin or wait: innermost library function of each task (set of functions = signature)"""
    addrs = []; idx = []
    for t, s in blocked:
        for a in s.split(','):
            addrs.append(a); idx.append(t)
    try:
        p = subprocess.run([SYMBOLIZER, '--obj=' + binary(variant), '--functions=linkage', '--no-inlines', '--relative-address'] + addrs, capture_output=True, text=True, timeout=120)
    except Exception:
        return None, None
    out = [b for b in p.stdout.split('\n\n') if b.strip()]
    if len(out) != len(addrs):
        return None, None
    per = {}
    for t, b in zip(idx, out):
        ls = b.strip().split('\n')
        if len(ls) >= 2 and '/Source/' in ls[1]:
            per.setdefault(t, []).append(_fn(ls[0]))
    fns = []
    for t, fr in sorted(per.items()):
        f = next((x for x in fr if x not in _WAIT_HELPERS and not x.startswith('svt_verif')), None)
        if f: fns.append(re.sub(r'\.(isra|constprop|part|cold)\.\d+', '', f))
    if not fns:
        return None, None
    return 'livelock:' + '+'.join(sorted(set(fns))), ' '.join(fns)

def run_case(case, variant='plain', timeout=None, keep=False):
    """Execute one simulated world in a fresh process.  Returns a result dict with at least
    outcome (class), detail, site, failures (oracle failures), ubsan (list of sites)."""
    d = _tmpdir()
    cp, rp = os.path.join(d, 'case.json'), os.path.join(d, 'result.json')
    with open(cp, 'w') as f:
        json.dump(case, f)
    env = dict(os.environ)
    env['ASAN_SYMBOLIZER_PATH'] = SYMBOLIZER
    env['UBSAN_SYMBOLIZER_PATH'] = SYMBOLIZER
    env['GLIBC_TUNABLES'] = 'glibc.malloc.hugetlb=1'   # fewer page faults: the VM's fault path is the bottleneck
    if timeout is None:
        timeout = case.get('wall_timeout', 300)
    t0 = time.time()
    try:
        p = subprocess.run([binary(variant), cp, rp], stdout=subprocess.DEVNULL, stderr=subprocess.PIPE, timeout=timeout, env=env, cwd=d)
        rc, err = p.returncode, p.stderr.decode('utf-8', 'replace')
        timed_out = False
    except subprocess.TimeoutExpired as e:
        rc, err, timed_out = -999, (e.stderr or b'').decode('utf-8', 'replace'), True
    wall = time.time() - t0
    res = None
    if os.path.exists(rp):
        try:
            with open(rp) as f:
                res = json.load(f)
        except Exception:
            res = None
    if res is None:
        res = {'failures': []}
        if os.path.exists(rp + '.early'):   # invariant violations recorded online before the process died
            try:
                with open(rp + '.early') as f:
                    res['failures'] = [json.loads(l) for l in f if l.strip()]
            except Exception:
                pass
        if timed_out:
            res['outcome'] = 'HANG'; res['detail'] = 'no scheduling point reached within %ds wall clock' % timeout; res['site'] = 'watchdog'
        elif rc == 77 or 'AddressSanitizer' in err:
            kind, site, rw, frames = _asan_site(err)
            res['outcome'] = 'ASAN'; res['detail'] = '%s %s in %s' % (kind, rw, ' <- '.join(frames[:3]) or 'unknown'); res['site'] = '%s:%s' % (kind, site)
        elif rc < 0:
            res['outcome'] = 'SIGNAL'; res['detail'] = 'signal %d' % (-rc); res['site'] = 'signal%d' % (-rc)
            frames = _symbolize_crash(err, variant)
            if frames:
                res['site'] = 'signal%d:%s' % (-rc, frames[0]); res['detail'] = 'signal %d in %s' % (-rc, ' <- '.join(frames[:3]))
        else:
            res['outcome'] = 'CRASH'; res['detail'] = 'exit code %d: %s' % (rc, err[-300:]); res['site'] = 'exit%d' % rc
    else:
        o = res.get('outcome', 'ok')
        if o != 'ok' and 'site' not in res:
            res['site'] = _site_of_detail(o, res.get('detail', ''))
            if o == 'DEADLOCK' and res.get('blocked'):
                site, waits = _deadlock_site(res.pop('blocked'), variant)
                if site:
                    res['site'] = site; res['detail'] = 'waits: %s | %s' % (waits, res.get('detail', ''))
            if o == 'LIVELOCK' and res.get('blocked'):
                site, waits = _livelock_site(res.pop('blocked'), variant)
                if site:
                    res['site'] = site; res['detail'] = 'spinning/waiting in: %s | %s' % (waits, res.get('detail', ''))
    ub = []
    for m in UBSAN_RE.finditer(err):
        path = m.group(1)
        if '/Source/' in path or '/verif/' not in path:
            # the site is the *text* of the offending source line, not its number: unrelated edits above it must not change the signature
            ub.append('%s:[%s] %s' % (os.path.basename(path), _src_line(path, int(m.group(2))), re.sub(r'-?\d[\d.e+]*', 'N', m.group(4))[:80]))
    res['ubsan'] = sorted(set(ub))
    res['simwarn'] = sorted(set(re.findall(r'SIMWARN (.*)', err)))[:10]
    mf = re.search(r'SIMFAULT (\w+) seq=(\d+) pcs=([0-9a-fx,]+)', err)
    if mf:   # symbolised on demand (fault_frames): most fault runs end in a clean error return and never need it
        res['fault_raw'] = {'kind': mf.group(1), 'seq': int(mf.group(2)), 'pcs': mf.group(3), 'variant': variant}
    res['wall_s'] = wall
    res['rc'] = rc
    if keep:
        res['_dir'] = d
        res['_stderr'] = err[-20000:]
    else:
        shutil.rmtree(d, ignore_errors=True)
    return res

_src_cache = {}
def _src_line(path, line):
    """whitespace-free text of a source line (first 70 characters); falls back to the line number when the file cannot be read"""
    try:
        if path not in _src_cache:
            with open(path, errors='replace') as f:
                _src_cache[path] = f.read().split('\n')
        return re.sub(r'\s+', '', _src_cache[path][line - 1])[:70]
    except Exception:
        return 'line%d' % line

def _site_of_detail(outcome, detail):
    if outcome == 'DEADLOCK':
        # wait-for signature without thread numbers that depend on nothing but creation order: keep blocked kinds of the app task
        m = re.search(r't0:(\w+)', detail)
        return 'app:' + (m.group(1) if m else '?')
    if outcome == 'TRAP_LIB_ERROR':
        m = re.search(r'internal error (0x[0-9a-f]+)', detail)
        return 'lib_error:' + (m.group(1) if m else '?')
    if outcome.startswith('TRAP'):
        return re.sub(r'\d+', 'N', detail)[:80]
    return outcome.lower()

def pmap(fn, items, jobs=None, variant=None):
    jobs = jobs or (JOBS.get(variant) if variant else None) or NCPU
    if not items:
        return []
    with ThreadPoolExecutor(max_workers=jobs) as ex:
        return list(ex.map(fn, items))

# ------------------------------------------------------------------------------------------------
def case_hash(case):
    return hashlib.sha1(json.dumps(case, sort_keys=True).encode()).hexdigest()[:12]

def fingerprint(res):
    """what must be identical when the same case is executed again"""
    keys = ('outcome', 'site', 'stream_hash', 'recon_hash', 'output_hash')
    fp = {k: res.get(k) for k in keys}
    fp['trace_hash'] = (res.get('sim') or {}).get('trace_hash')
    fp['failures'] = sorted(set(f['name'] for f in res.get('failures', [])))
    fp['ubsan'] = res.get('ubsan')
    if 'instances' in res:
        fp['inst'] = [(i.get('stream_hash'), i.get('recon_hash')) for i in res['instances']]
    return fp

class Violation:
    def __init__(self, prop, cls, site, detail, case, variant, extra=None, family=None):
        self.prop, self.cls, self.site, self.detail, self.case, self.variant = prop, cls, site, detail, case, variant
        self.extra = extra or {}
        self.family = family   # for differential oracles: list of cases [base, variant]
    def signature(self):
        return '%s:%s' % (self.cls, self.site)

# ---- known findings ------------------------------------------------------------------------------
def load_known():
    p = os.path.join(ROOT, 'known_findings.json')
    if not os.path.exists(p):
        return {'findings': [], 'fixed': []}
    with open(p) as f:
        return json.load(f)

def _pred_ok(pred, case):
    """configuration predicate of a known finding: {"cfg.field": [values]} or {"cfg.field": {"min":..,"max":..}}"""
    for k, want in (pred or {}).items():
        cur = case
        for part in k.split('.'):
            if isinstance(cur, dict) and part in cur:
                cur = cur[part]
            else:
                cur = None
                break
        if isinstance(want, dict):
            v = cur if cur is not None else want.get('default')
            if v is None:
                return False
            if 'min' in want and v < want['min']:
                return False
            if 'max' in want and v > want['max']:
                return False
            if 'ne' in want and v == want['ne']:
                return False
        elif isinstance(want, list):
            if cur not in want:
                return False
        else:
            if cur != want:
                return False
    return True

def match_known(v, known):
    for k in known.get('findings', []):
        if v.prop not in (k['property'] if isinstance(k['property'], list) else [k['property']]):
            continue
        if not re.fullmatch(k['class'], v.cls):
            continue
        if not re.search(k['site'], v.site):
            continue
        cases = v.family if v.family else [v.case]
        if 'predicate' in k and not any(_pred_ok(k['predicate'], c) for c in cases):
            continue
        return k
    return None

# ---- evidence --------------------------------------------------------------------------------------
class Evidence:
    def __init__(self, prop, tier, seed, level='exploration'):
        self.prop, self.tier, self.seed, self.level = prop, tier, seed, level
        self.t0 = time.time()
        self.evaluations = 0
        self.distinct = set()
        self.samples = []
        self.fault_kinds = {}
        self.reach = {}
        self.decisions = 0
        self.switches = 0
        self.sim_ns = 0
        self.trace_hashes = set()
        self.post_sigs = set()
        self.violations = []
        self.known_hit = {}
        self.internal_errors = []
        self.notes = []
        self.rule = ''
        self.assumptions = []
        self.components = {}
        self.extra = {}
        self.variants = {}
    def add_run(self, case, res, nontrivial_key=None):
        self.evaluations += 1
        s = res.get('sim') or {}
        self.decisions += s.get('decisions', 0); self.switches += s.get('switches', 0); self.sim_ns += s.get('sim_ns', 0)
        if s.get('trace_hash'):
            self.trace_hashes.add(s['trace_hash'])
        ev = res.get('events') or {}
        if ev.get('post_signature'):
            self.post_sigs.add(ev['post_signature'])
        for k in ('alloc_faults_fired', 'thread_faults_fired', 'eintr_fired', 'spurious_fired', 'eperm_fired', 'jumps_fired', 'stall_fired'):
            if s.get(k):
                self.fault(k.replace('_fired', ''), s[k])
        if nontrivial_key is not None:
            self.distinct.add(nontrivial_key)
        if len(self.samples) < 3:
            self.samples.append({'case': _brief(case), 'outcome': res.get('outcome'), 'decisions': s.get('decisions'), 'threads': s.get('nthreads'), 'packets': res.get('npackets'), 'failures': [f['name'] for f in res.get('failures', [])][:5]})
    def fault(self, kind, n=1):
        self.fault_kinds[kind] = self.fault_kinds.get(kind, 0) + n
    def probe(self, name, n=1):
        self.reach[name] = self.reach.get(name, 0) + n
    def write(self):
        wall = time.time() - self.t0
        cov = {
            'evaluations': max(self.evaluations, 0), 'distinct_nontrivial': len(self.distinct), 'rule': self.rule, 'samples': self.samples or [{'note': 'no run completed'}],
            'runs_per_hour': int(self.evaluations / wall * 3600) if wall > 0 else 0, 'simulated_seconds_total': self.sim_ns / 1e9, 'decisions_total': self.decisions,
            'context_switches_total': self.switches, 'fault_kinds_fired': self.fault_kinds, 'reach_probes': self.reach,
            'interleaving_measure': {'distinct_decision_traces': len(self.trace_hashes), 'distinct_message_order_signatures': len(self.post_sigs)},
            'components': self.components, 'known_findings_hit': self.known_hit, 'internal_errors': self.internal_errors, 'notes': self.notes,
            'zero_probes': sorted(k for k, v in self.reach.items() if v == 0),
        }
        cov.update(self.extra)
        ev = {'property_id': self.prop, 'tier': self.tier, 'seed': int(self.seed), 'level': self.level, 'coverage': cov, 'assumptions': self.assumptions, 'wall_s': round(wall, 2), 'violations': len(self.violations)}
        os.makedirs(EVIDENCE_DIR, exist_ok=True)
        with open(os.path.join(EVIDENCE_DIR, self.prop + '.json'), 'w') as f:
            json.dump(ev, f, indent=1)

def _brief(case):
    c = copy.deepcopy(case)
    if 'program' in c and len(c['program']) > 12:
        c['program'] = c['program'][:6] + [{'...': '%d ops' % (len(c['program']) - 10)}] + c['program'][-4:]
    if 'sim' in c and 'dev' in c['sim'] and len(c['sim']['dev']) > 8:
        c['sim'] = dict(c['sim'], dev=c['sim']['dev'][:8] + ['... %d deviations' % len(c['sim']['dev'])])
    for inst in c.get('instances', []):
        if len(inst.get('program', [])) > 8:
            inst['program'] = inst['program'][:4] + [{'...': '%d ops' % len(inst['program'])}]
    return c

COMPONENTS_ENC = {'real': ['libSvtAv1Enc.a (all of Source/Lib/Encoder + Common incl. EbThreads.c, SRM, SIMD kernels)'],
                  'simulated': ['pthread/semaphore/condvar primitives', 'clock_gettime/gettimeofday/nanosleep', 'sysconf + /proc/cpuinfo (machine)', 'malloc family failure/poison', 'application task (generated program)'],
                  'reference': ['libdav1d.so.6 (dlopen, 1 thread)', 'libaom.so.3 (dlopen)', 'independent OBU/frame-header parser oracles/obu.cc']}
COMPONENTS_DEC = {'real': ['libSvtAv1Dec.a (all of Source/Lib/Decoder + Common)'], 'simulated': ['pthread/semaphore primitives', 'busy-wait loops (SVT_VERIF_SPIN yields)', 'nanosleep', 'enc->dec byte channel (transport faults)', 'application task'], 'reference': ['libdav1d.so.6']}
