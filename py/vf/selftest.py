"""Self-validation of the machinery: ABI probes and the determinism proof."""
import copy, json, random
from . import core, gen
from .core import run_case, pmap, log

def probe():
    cfg = {'enc_mode': 8, 'qp': 30, 'logical_processors': 2, 'recon_enabled': 1, 'source_width': 64, 'source_height': 64}
    c = gen.enc_case(cfg, {'kind': 'mix', 'seed': 1}, {'n': 3}, oracles={'decode': 1, 'parse': 1, 'aom': 1})
    ok = True
    for v in ('plain', 'asan'):
        r = run_case(c, v)
        log('probe %s: outcome=%s decoder=%s/%s decoded=%s failures=%s' % (v, r.get('outcome'), r.get('reference_decoder'), r.get('reference_decoder2'), r.get('decoded'), [f['name'] for f in r.get('failures', [])]))
        if r.get('outcome') != 'ok' or r.get('decoded') != 3 or not str(r.get('reference_decoder', '')).startswith('dav1d'):
            ok = False
    return 0 if ok else 1

def determinism(n=40):
    """each seed twice, at two worker counts, on both variants; fingerprints must be pairwise equal"""
    core.build('plain'); core.build('asan')
    rng = random.Random(12345)
    cases = []
    for i in range(n):
        w, h = gen.size(rng)
        cfg = {'enc_mode': 8, 'qp': 30, 'recon_enabled': 1, 'logical_processors': rng.choice([1, 2, 4, 8]), 'source_width': w, 'source_height': h}
        c = gen.enc_case(cfg, gen.content(rng), {'n': rng.randint(2, 8), 'pacing': rng.choice(['each', 'random', 'every_k'])}, sim=gen.schedule(rng), machine=gen.machine(rng), oracles={'decode': 0})
        cases.append(c)
    bad = 0
    for variant in ('plain', 'asan'):
        a = pmap(lambda c: run_case(c, variant), cases, jobs=16)
        b = pmap(lambda c: run_case(c, variant), cases, jobs=3)
        for c, x, y in zip(cases, a, b):
            if core.fingerprint(x) != core.fingerprint(y):
                bad += 1; log('NONDETERMINISTIC', variant, json.dumps(c['sim']), core.fingerprint(x), core.fingerprint(y))
        log('%s: %d cases x2, %d mismatches' % (variant, len(cases), bad))
    print('determinism: %d mismatches' % bad)
    return 1 if bad else 0
