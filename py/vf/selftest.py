"""Self-validation of the machinery: ABI probes and the determinism proof."""
import copy, json, random
from . import core, gen
from .core import run_case, pmap, log

def probe():
    cfg = {'enc_mode': 8, 'qp': 30, 'logical_processors': 2, 'recon_enabled': 1, 'source_width': 64, 'source_height': 64}
    c = gen.enc_case(cfg, {'kind': 'mix', 'seed': 1}, {'n': 3}, oracles={'decode': 1, 'parse': 1, 'aom': 1})
    ok = True
    for v in ('plain', 'asan'):
        r = run_case(c, v)
        log('probe %s: outcome=%s decoder=%s/%s decoded=%s failures=%s' % (v, r.get('outcome'), r.get('reference_decoder'), r.get('reference_decoder2'), r.get('decoded'), [f['name'] for f in r.get('failures', [])]))
        if r.get('outcome') != 'ok' or r.get('decoded') != 3 or not str(r.get('reference_decoder', '')).startswith('dav1d'):
            ok = False
    return 0 if ok else 1

def determinism(n=40):
    """each case twice, at two worker counts, on every build variant; fingerprints (decision-trace hash, outputs, failures) must be pairwise equal.
    Worlds: whole encoder (all policies, buggify, machines), multi-instance (enc+dec), multi-threaded decoder, SRM and segment component worlds, fine-grained preemption."""
    from . import checks3
    core.build('plain'); core.build('asan'); core.build('fine'); core.build('mem')
    rng = random.Random(12345)
    enc = []
    for i in range(n):
        w, h = gen.size(rng)
        cfg = {'enc_mode': 8, 'qp': 30, 'recon_enabled': 1, 'logical_processors': rng.choice([1, 2, 4, 8]), 'source_width': w, 'source_height': h}
        c = gen.enc_case(cfg, gen.content(rng), {'n': rng.randint(2, 8), 'pacing': rng.choice(['each', 'random', 'every_k'])}, sim=gen.schedule(rng), machine=gen.machine(rng), oracles={'decode': 0})
        enc.append(c)
    st = checks3.make_streams(['base8', 'tiles1x2', 'tiles2x2'])
    dec = [checks3.dec_case(st[rng.choice(sorted(st))], rng.choice([2, 3, 4, 8]), sim=dict(gen.schedule(rng, horizon=3000, nthreads=9), step_limit=30000000)) for _ in range(n)] if st else []
    comp = []
    for i in range(n * 3):
        srm = {'objects': rng.randint(1, 6), 'producers': rng.randint(1, 4), 'consumers': rng.randint(1, 4), 'per_producer': rng.randint(1, 12), 'poller': 0, 'extra_refs': rng.choice([0, 1, 2]), 'releasers': rng.randint(1, 2), 'body_yields': rng.choice([0, 1, 2])}
        comp.append({'world': 'srm', 'srm': srm, 'sim': dict(gen.schedule(rng, horizon=800, nthreads=10), step_limit=3000000)})
        w, h = rng.randint(1, 20), rng.randint(1, 14)
        seg = {'w': w, 'h': h, 'cols': rng.randint(1, 8), 'rows': rng.randint(1, 8), 'workers': rng.randint(1, 8), 'pictures': 2, 'w2': w, 'h2': h, 'max_cols': 8, 'max_rows': 8, 'body_yields': 1}
        comp.append({'world': 'seg', 'seg': seg, 'sim': dict(gen.schedule(rng, horizon=2000, nthreads=9), step_limit=20000000)})
    multi = []
    for i in range(max(4, n // 4)):
        insts = [checks3.inst({'enc_mode': 8, 'logical_processors': rng.choice([1, 2])}, {'kind': 'mix', 'seed': rng.randint(1, 99)}, rng.randint(2, 4), (64, 64), delay=rng.choice([0, 500, 3000]))]
        if st: s = st['base8']; insts.append({'kind': 'dec', 'stream': s['path'], 'w': s['w'], 'h': s['h'], 'bd': s['bd'], 'threads': rng.choice([1, 2]), 'delay': rng.choice([0, 800])})
        multi.append({'world': 'multi', 'instances': insts, 'sim': gen.schedule(rng, horizon=12000, nthreads=60, allow_buggify=False), 'machine': {'cores': 4, 'sockets': 1}, 'oracles': {'decode': 0, 'parse': 0}})
    fine = [dict(c, sim=dict(gen.schedule(rng, allow_buggify=False), fine=rng.choice([3000, 20000]))) for c in enc[:max(6, n // 3)]]
    bad = 0; total = 0
    memc = [dict(c, sim=dict(c['sim'], mem=rng.choice([3, 20, 60]), step_limit=3000000)) for c in comp[:n * 2]] + [dict(c, sim=dict(c['sim'], mem=rng.choice([300, 3000]))) for c in dec[:n // 2]] + [dict(c, sim=dict(gen.schedule(rng, allow_buggify=False), mem=rng.choice([5000, 50000]))) for c in enc[:max(4, n // 6)]]
    for variant, cases in (('plain', enc + dec + comp + multi), ('asan', enc[:n // 2] + dec[:n // 2] + multi[:3]), ('fine', fine + [dict(m, sim=dict(m['sim'], fine=8000)) for m in multi[:3]]), ('mem', memc)):
        a = pmap(lambda c: run_case(c, variant), cases, jobs=16)
        b = pmap(lambda c: run_case(c, variant), cases, jobs=3)
        vb = 0
        for c, x, y in zip(cases, a, b):
            if core.fingerprint(x) != core.fingerprint(y):
                vb += 1; log('NONDETERMINISTIC', variant, c.get('world'), json.dumps(c['sim']), core.fingerprint(x), core.fingerprint(y))
        bad += vb; total += len(cases)
        log('%s: %d cases x2 (16 and 3 workers), %d mismatches; outcomes %s' % (variant, len(cases), vb, sorted(set(x.get('outcome') for x in a))))
    checks3.cleanup_streams()
    print('determinism: %d cases executed twice, %d mismatches' % (total, bad))
    return 1 if bad else 0
