"""Case generators: application programs, schedules, machines, configuration swarm, contents.
Generators only produce explicit cases (DESIGN.md §3.2)."""
import copy, random

def program(n, pacing='each', k=2, recon=True, eos='separate', stream_header=True, teardown=True, seed=0, stall=0, pts=None, hold=False):
    """Application program for one encoder session.
    pacing: each | every_k | end | random | none (never drain before EOS)"""
    rng = random.Random(seed)
    p = [{'op': 'init_handle'}, {'op': 'set_param'}, {'op': 'init'}]
    if stream_header:
        p.append({'op': 'stream_header'})
    def drain_now():
        p.append({'op': 'get_packet'})
        if recon:
            p.append({'op': 'get_recon'})
    for i in range(n):
        s = {'op': 'send', 'i': i}
        if pts is not None:
            s['pts'] = pts[i]
        if eos == 'flag' and i == n - 1:
            s['eos_flag'] = 1
        p.append(s)
        if stall:
            p.append({'op': 'yield', 'n': stall})
        if pacing == 'each':
            drain_now()
        elif pacing == 'every_k' and (i + 1) % k == 0:
            drain_now()
        elif pacing == 'random':
            r = rng.random()
            if r < 0.4:
                drain_now()
            elif r < 0.55:
                p.append({'op': 'get_packet', 'max': 1})
            elif r < 0.7:
                p.append({'op': 'yield', 'n': rng.randint(1, 400)})
    if eos == 'separate':
        p.append({'op': 'eos'})
    if n == 0:
        # an empty stream yields no packet to wait for: the application polls, it does not block
        p += [{'op': 'yield', 'n': 3000}, {'op': 'get_packet'}] + ([{'op': 'get_recon'}] if recon else [])
    else:
        p.append({'op': 'drain'})
    if teardown:
        if stream_header:
            p.append({'op': 'stream_header_release'})
        p += [{'op': 'deinit'}, {'op': 'deinit_handle'}, {'op': 'session_end'}]
    return p

def two_pass_program(n, recon=True, second=None):
    """first pass (rc_firstpass_stats_out=1) and second pass (rc_twopass_stats_in = the first pass's statistics) as two sessions of one application"""
    p1 = program(n, 'each', recon=False, stream_header=False)
    for o in p1:
        if o['op'] == 'set_param': o['set'] = {'rc_firstpass_stats_out': 1, 'recon_enabled': 0}
    i = next(k for k, o in enumerate(p1) if o['op'] == 'deinit'); p1.insert(i, {'op': 'stream_info', 'save': 1})
    p2 = program(n, 'each', recon=recon)
    for o in p2:
        if o['op'] == 'set_param': o['set'] = dict({'use_saved_stats': 1}, **(second or {}))
    return p1 + p2

def enc_case(cfg, content, g=None, sim=None, machine=None, oracles=None, mem=None, extra=None):
    g = dict(g or {})
    c = dict(content)
    g.setdefault('n', c.get('n', 8)); c['n'] = g['n']
    cfg = dict(cfg)
    cfg.setdefault('source_width', c.get('w', 64)); cfg.setdefault('source_height', c.get('h', 64))
    c['w'], c['h'] = cfg['source_width'], cfg['source_height']
    if cfg.get('encoder_bit_depth', 8) > 8:
        c['bd'] = 10
    recon = bool(cfg.get('recon_enabled', 0))
    case = {'world': 'enc', 'sim': sim or {'seed': 1, 'policy': 'np'}, 'machine': machine or {'cores': 4, 'sockets': 1}, 'cfg': cfg, 'content': c,
            'program': program(g['n'], g.get('pacing', 'each'), g.get('k', 2), recon, g.get('eos', 'separate'), g.get('stream_header', True), g.get('teardown', True), g.get('pseed', 0), g.get('stall', 0), g.get('pts'), g.get('hold', False)),
            'oracles': oracles or {}, '_gen': g}
    if mem:
        case['mem'] = mem
    if extra:
        case.update(extra)
    _tag_last_intra(case)
    return case

def _tag_last_intra(case):
    """derived tag used by a recorded finding: the last submitted picture is an intra-refresh picture (position k*(P+1))"""
    P = (case.get('cfg') or {}).get('intra_period_length'); n = (case.get('content') or {}).get('n', 0)
    case.pop('_last_pic_intra_refresh', None)
    if isinstance(P, int) and P >= 1 and n > 1 and (n - 1) % (P + 1) == 0:
        case['_last_pic_intra_refresh'] = 1

def regen(case, **kw):
    c = copy.deepcopy(case)
    g = dict(c.get('_gen') or {}); g.update(kw)
    if g.get('pts') is not None:
        g['pts'] = g['pts'][:g['n']]
    recon = bool(c['cfg'].get('recon_enabled', 0))
    c['content']['n'] = g['n']
    c['program'] = program(g['n'], g.get('pacing', 'each'), g.get('k', 2), recon, g.get('eos', 'separate'), g.get('stream_header', True), g.get('teardown', True), g.get('pseed', 0), g.get('stall', 0), g.get('pts'), g.get('hold', False))
    c['_gen'] = g
    _tag_last_intra(c)
    return c

# ---- schedules ---------------------------------------------------------------------------------------
def schedule(rng, horizon=6000, nthreads=40, allow_buggify=True, api_stall=0.2):
    """one seeded schedule policy (swarm): returns the "sim" dict"""
    seed = rng.getrandbits(48)
    r = rng.random()
    if r < 0.08:
        s = {'policy': 'np'}
    elif r < 0.45:
        s = {'policy': 'rand', 'sw': rng.choice([10, 30, 100, 500, 1000])}
    elif r < 0.65:
        s = {'policy': 'pct', 'pct_depth': rng.choice([1, 2, 3, 5, 8]), 'pct_horizon': horizon}
    elif r < 0.82:
        if rng.random() < 0.5:
            s = {'policy': 'starve', 'starve_tid': rng.randint(1, nthreads)}
        else:
            m = rng.choice([2, 3, 5, 7]); s = {'policy': 'starve', 'starve_mod': m, 'starve_rem': rng.randrange(m)}
    elif r < 0.9:
        s = {'policy': 'burst', 'sw': rng.choice([1, 2, 5])}
    elif r < 0.95:
        s = {'policy': 'rr'}
    else:
        s = {'policy': 'rand', 'sw': 200, 'stall': [rng.randint(1, horizon), rng.randint(1, nthreads), rng.randint(50, 2000)]}
    s['seed'] = seed
    if rng.random() < api_stall:
        # a slow application: task 0 is withheld in the middle of API calls while the library keeps running
        s['api_stall'] = [rng.choice([30, 80, 200]), rng.choice([300, 1500, 5000])]
    if allow_buggify:
        if rng.random() < 0.25:
            s['eintr'] = rng.choice([5, 20, 100])
        if rng.random() < 0.25:
            s['spurious'] = rng.choice([20, 100, 300])
        if rng.random() < 0.15:
            s['eperm'] = 1
        if rng.random() < 0.15:
            s['jumps'] = [[rng.randint(1, horizon), rng.choice([10**9, 3600 * 10**9, 10**6])]]
        if rng.random() < 0.3:
            s['quantum'] = rng.choice([1000, 10000, 50000])
    return s

def machine(rng):
    cores = rng.choice([1, 2, 3, 4, 4, 6, 8, 12, 16, 32, 64])
    sockets = 2 if (cores >= 4 and rng.random() < 0.25) else 1
    return {'cores': cores, 'sockets': sockets, 'cpuinfo': 0}

# ---- contents -----------------------------------------------------------------------------------------
CONTENT_KINDS = ['mix', 'grainy', 'pan', 'noise', 'flat', 'hgrad', 'vgrad', 'dgrad', 'moving', 'text', 'text_flash', 'checker', 'rails', 'max', 'zero']
def content(rng, kinds=None, n=None):
    c = {'kind': rng.choice(kinds or CONTENT_KINDS), 'seed': rng.randint(1, 10**6)}
    if n is not None:
        c['n'] = n
    if rng.random() < 0.15:
        c['cut'] = rng.randint(1, max(1, (n or 8) - 1))
    if c['kind'] == 'flat':
        c['val'] = rng.choice([0, 16, 128, 235, 255])
    if c['kind'] == 'grainy':
        c['val'] = rng.choice([64, 128]); c.update(rng.choice([{}, {}, {'static': 1}, {'hold': rng.choice([2, 3])}]))
    return c

# ---- configuration swarm ---------------------------------------------------------------------------------
# field -> list of candidate values (documented domains, EbSvtAv1Enc.h); the library's own
# set_parameter decides acceptance, rejected candidates are not encoded.
SWARM = {
    'enc_mode': [8, 8, 7, 6, 5, 4],
    'hierarchical_levels': [3, 4, 5],
    'pred_structure': [2, 2, 1, 0],
    'intra_period_length': [-1, 0, 1, 3, 7, 8, 15, 16, 31],
    'intra_refresh_type': [1, 2],
    'qp': [0, 10, 20, 30, 40, 50, 63],
    'enable_qp_scaling_flag': [0, 1],
    'disable_dlf_flag': [0, 1],
    'cdef_level': [-1, 0, 1, 3, 5],
    'enable_restoration_filtering': [-1, 0, 1],
    'enable_warped_motion': [-1, 0, 1],
    'enable_global_motion': [0, 1],
    'obmc_level': [-1, 0, 1, 2],
    'filter_intra_level': [-1, 0, 1],
    'disable_cfl_flag': [-1, 0, 1],
    'inter_intra_compound': [-1, 0, 1],
    'compound_level': [-1, 0, 1, 2],
    'palette_level': [-1, 0, 1, 3, 6],
    'intrabc_mode': [-1, 0, 1, 2, 3],
    'screen_content_mode': [0, 1, 2],
    'enable_mfmv': [-1, 0, 1],
    'enable_overlays': [0, 1],
    'tf_level': [-1, 0, 1, 2, 3],
    'enable_tpl_la': [0, 1],
    'look_ahead_distance': [0, 1, 2, 5, 17, 33],
    'scene_change_detection': [0],
    'super_block_size': [64, 128],
    'tile_columns': [0, 1, 2],
    'tile_rows': [0, 1, 2],
    'encoder_bit_depth': [8, 8, 8, 10],
    'is_16bit_pipeline': [0, 1],
    'enable_hbd_mode_decision': [0, 1, 2],
    'rdoq_level': [-1, 0, 1],
    'frame_end_cdf_update': [-1, 0, 1],
    'pic_based_rate_est': [-1, 0, 1],
    'rate_control_mode': [0, 0, 0, 1, 2],
    'target_bit_rate': [50000, 300000, 2000000],
    'min_qp_allowed': [0, 1, 10, 20],
    'max_qp_allowed': [63, 50, 40],
    'film_grain_denoise_strength': [0, 0, 0, 5, 20, 50],
    'superres_mode': [0, 0, 0, 1, 2],
    'superres_denom': [8, 9, 12, 16],
    'superres_kf_denom': [8, 10, 16],
    'unrestricted_motion_vector': [0, 1],
    'enable_adaptive_quantization': [0, 2],
    'nsq_table': [-1, 0, 1],
    'mrp_level': [-1, 0, 1, 4, 9],
    'spatial_sse_full_loop_level': [-1, 0, 1],
    'over_bndry_blk': [-1, 0, 1],
    'new_nearest_comb_inject': [-1, 0, 1],
    'bipred_3x3_inject': [-1, 0, 1, 2],
    'pred_me': [-1, 0, 1, 3, 5],
    'enable_paeth': [-1, 0, 1],
    'enable_smooth': [-1, 0, 1],
    'intra_angle_delta': [-1, 0, 1],
    'enable_intra_edge_filter': [-1, 0, 1],
    'set_chroma_mode': [-1, 0, 1, 2, 3],
    'enable_redundant_blk': [-1, 0, 1],
    'logical_processors': [1, 2, 4, 8],
    'high_dynamic_range_input': [0, 1],
    'stat_report': [0, 1],
    'recode_loop': [0, 1, 2, 3],
    'altref_strength': [0, 3, 6],
    'altref_nframes': [3, 7, 10],
    'enable_hme_flag': [0, 1],
    'search_area_width': [8, 16, 64],
    'search_area_height': [8, 16, 64],
}
# the region in which the unchanged tree has been swept during development (quick-tier exploration stays inside)
SAFE = ['enc_mode', 'hierarchical_levels', 'qp', 'enable_qp_scaling_flag', 'disable_dlf_flag', 'cdef_level', 'enable_restoration_filtering', 'enable_global_motion', 'filter_intra_level',
        'disable_cfl_flag', 'palette_level', 'enable_mfmv', 'tf_level', 'tile_columns', 'tile_rows', 'rdoq_level', 'logical_processors', 'intra_period_length', 'intra_refresh_type', 'screen_content_mode',
        'enable_hme_flag', 'stat_report', 'obmc_level', 'enable_warped_motion', 'super_block_size', 'look_ahead_distance', 'enable_tpl_la', 'pred_structure']

def swarm_cfg(rng, fields=None, nmax=6, base=None):
    cfg = dict(base or {})
    fields = fields or list(SWARM.keys())
    k = rng.randint(0, nmax)
    for f in rng.sample(fields, min(k, len(fields))):
        cfg[f] = rng.choice(SWARM[f])
    return cfg

def size(rng, small=True, multiple8=None):
    if small:
        w = rng.choice([64, 64, 72, 80, 96, 128, 66, 70, 76, 132, 160, 192, 256])
        h = rng.choice([64, 64, 72, 80, 96, 128, 66, 70, 76, 100, 144, 192])
    else:
        w = rng.choice([320, 352, 416, 640, 854, 1280]); h = rng.choice([180, 240, 288, 360, 480, 720])
    if multiple8:
        w, h = (w + 7) // 8 * 8, (h + 7) // 8 * 8
    return w, h
