"""The checks registered in MANIFEST.json, one function per property."""
import copy, random, os, json, time
from . import core, gen, props
from .core import Violation, run_case, pmap, log
from .engine import Check, EVALUATORS, evaluator
from .props import single_violations, relabel, make_diff_evaluator, out_key

CHECKS = {}
def check(prop):
    def deco(fn):
        CHECKS[prop] = fn
        return fn
    return deco

BASE_CFG = {'enc_mode': 8, 'qp': 30, 'logical_processors': 4, 'recon_enabled': 1}

def run_batch(ck, cases, variant, prop, adopt, evalname='single', key=None):
    """run single-run cases in parallel, feed evidence, queue violations of `prop`"""
    rs = pmap(lambda c: run_case(c, variant), cases)
    bad_runs = 0
    for c, r in zip(cases, rs):
        ck.ev.add_run(c, r, key(c, r) if key else _default_key(c, r))
        vs = single_violations(c, r, variant)
        for v in relabel(vs, prop, adopt):
            ck.add(v, evalname)
        if r.get('outcome') != 'ok':
            bad_runs += 1
            if not any(v.prop in adopt or v.prop == prop for v in vs):
                ck.ev.notes.append('run not evaluable (%s %s) %s' % (r.get('outcome'), r.get('site'), core.case_hash(c)))
    ck.ev.probe('runs_not_ok', bad_runs)
    return rs

def _default_key(c, r):
    s = r.get('sim') or {}
    if r.get('outcome') == 'ok' and s.get('nthreads', 0) >= 2 and (r.get('npackets', 0) or r.get('npictures', 0) or r.get('world') in ('srm', 'seg')):
        return (s.get('trace_hash'), r.get('stream_hash'), r.get('output_hash'), core.case_hash(c))
    return None

def probes_enc(ck, rs):
    for r in rs:
        for fl in r.get('frames', []) or []:
            for f in fl:
                if f.get('se'): ck.ev.probe('show_existing_frame')
                if not f.get('se') and not f.get('show'): ck.ev.probe('hidden_frame(alt-ref)')
                if f.get('type') == 0: ck.ev.probe('key_frame')
                if f.get('type') == 2: ck.ev.probe('intra_only_frame')
                if f.get('ntiles', 1) > 1: ck.ev.probe('multi_tile_frame')
                if f.get('tr', 1) > 1 and any(f.get('lr', [])): ck.ev.probe('tile_rows_with_loop_restoration')
                if any(f.get('lr', [])): ck.ev.probe('loop_restoration_frame')
                if f.get('cdef_any'): ck.ev.probe('cdef_frame')
                if f.get('superres'): ck.ev.probe('superres_frame')
                if f.get('fg'): ck.ev.probe('film_grain_frame')
                if f.get('fg') and not f.get('fg_update') and f.get('type') == 1: ck.ev.probe('film_grain_params_inherited')
        ev = r.get('events') or {}
        if ev.get('seg_multi_segment_pictures'): ck.ev.probe('multi_segment_picture', ev['seg_multi_segment_pictures'])
        if ev.get('seg_resets'): ck.ev.probe('recode_loop_taken', ev['seg_resets'])
        if ev.get('nonblocking_empty'): ck.ev.probe('nonblocking_get_empty', ev['nonblocking_empty'])
        if ev.get('max_full_occupancy', 0) >= 8: ck.ev.probe('queue_occupancy>=8')
    for k in ('show_existing_frame', 'hidden_frame(alt-ref)', 'key_frame', 'multi_segment_picture'):
        ck.ev.reach.setdefault(k, 0)

# ======================================================================================================
# C04 — determinism under every interleaving, and termination
# a crash or hang under some schedule is schedule-dependent behaviour too (the canonical schedule is part of every family)
make_diff_evaluator('C04', 'diff_C04', adopt=('TERM', 'CRASH'))

C04_CORPUS = [
    # (cfg overrides, content, n) — chosen for sensitivity: many threads, segments, tiles, look-ahead
    ({'logical_processors': 4}, {'kind': 'mix', 'seed': 3}, 10, (64, 64)),
    ({'logical_processors': 8, 'enc_mode': 6}, {'kind': 'moving', 'seed': 5}, 9, (128, 128)),
    ({'logical_processors': 16, 'tile_columns': 1, 'tile_rows': 1}, {'kind': 'mix', 'seed': 9}, 8, (192, 128)),
    ({'logical_processors': 2, 'hierarchical_levels': 3, 'enable_tpl_la': 1, 'look_ahead_distance': 17}, {'kind': 'moving', 'seed': 11}, 12, (96, 64)),
    # longer than the picture-control-set pools at one logical processor: pooled objects are recycled, so state left behind by an
    # earlier picture (stale flags, counters, condition variables) meets the scheduler's reorderings
    ({'logical_processors': 1, 'enable_tpl_la': 1}, {'kind': 'moving', 'seed': 13}, 44, (64, 64)),
    # overlay pictures share picture number, input and pooled objects with their alt-ref while both are in flight in different stages;
    # in-loop restoration on (preset 6) so that per-thread working copies of the reconstruction matter; recon off (with recon on the
    # drain deadlock KF-C27-recon-drain-deadlock is met first)
    ({'logical_processors': 4, 'enable_overlays': 1, 'hierarchical_levels': 3, 'enc_mode': 6, 'qp': 20, 'recon_enabled': 0}, {'kind': 'grainy', 'seed': 15, 'val': 64}, 26, (128, 128)),
    ({'logical_processors': 8, 'enable_overlays': 1, 'hierarchical_levels': 3, 'enc_mode': 8, 'recon_enabled': 0}, {'kind': 'moving', 'seed': 17}, 34, (64, 64)),
]

@check('C04')
def check_c04(tier, seed):
    ck = Check('C04', tier, seed)
    ck.ev.rule = ('family = one (configuration, content, machine) x K schedules drawn from the policy swarm (np, rand(p), pct(d), starve, burst, rr, stall; buggify EINTR/spurious wake-ups/EPERM/clock jumps); '
                  'variant 0 is the canonical non-preemptive schedule; a run is non-trivial when it completed with >=2 threads and >=1 packet; distinct = distinct (decision-trace hash, case)')
    ck.ev.components = core.COMPONENTS_ENC
    ck.ev.assumptions = ['interleavings are explored at synchronisation-operation granularity (DESIGN.md section 12)', 'schedules are sampled, not enumerated']
    core.build('plain')
    rng = ck.rng
    fams = []
    K = 12 if tier == 'quick' else 48
    corpus = list(C04_CORPUS)
    nexp = 6 if tier == 'quick' else 40
    for i in range(nexp):
        w, h = gen.size(rng)
        cfg = gen.swarm_cfg(rng, fields=gen.SAFE if tier == 'quick' else None, nmax=4)
        cfg['logical_processors'] = rng.choice([1, 2, 4, 8, 16])
        corpus.append((cfg, gen.content(rng, kinds=['mix', 'moving', 'noise', 'text']), rng.randint(3, 12), (w, h)))
    rounds = 0
    while True:
        for (cfgo, cont, n, (w, h)) in corpus:
            cfg = dict(BASE_CFG); cfg.update(cfgo); cfg.update({'source_width': w, 'source_height': h})
            base = gen.enc_case(cfg, cont, {'n': n, 'pacing': 'each'}, sim={'seed': 1, 'policy': 'np'}, machine={'cores': max(4, cfg.get('logical_processors', 4)), 'sockets': 1}, oracles={'decode': 0, 'parse': 1})
            fam = [base]
            for k in range(K):
                c = copy.deepcopy(base); c['sim'] = gen.schedule(rng, horizon=600 * n, nthreads=30 + 4 * cfg.get('logical_processors', 4)); fam.append(c)
            fams.append(fam)
        # run all families' members in one parallel batch
        flat = [c for fam in fams for c in fam]
        rs = pmap(lambda c: run_case(c, 'plain'), flat)
        i = 0
        for fam in fams:
            frs = rs[i:i + len(fam)]; i += len(fam)
            b = frs[0]
            for c, r in zip(fam, frs):
                ck.ev.add_run(c, r, _default_key(c, r))
                for v in relabel(single_violations(c, r, 'plain'), 'C04', ('TERM', 'CRASH')):
                    ck.add(v, 'single')
            if b.get('outcome') != 'ok':
                continue
            for c, r in zip(fam[1:], frs[1:]):
                if r.get('outcome') == 'ok' and out_key(r) != out_key(b):
                    kind, det = props.diff_detail(b, r)
                    ck.add(Violation('C04', 'DIFF', kind, det, c, 'plain', family=[fam[0], c]), 'diff_C04')
            probes_enc(ck, frs)
        rounds += 1
        fams = []
        if tier == 'quick' or rounds >= ck.rounds:
            break
    # fine-grained part: on the build compiled with -finstrument-functions the scheduler also preempts at (seeded) function entries,
    # so threads interleave inside code that contains no synchronisation operation (DESIGN.md 13.6)
    core.build('fine')
    ffams = []
    for (cfgo, cont, n, (w, h)) in (C04_CORPUS[:2] if tier == 'quick' else C04_CORPUS[:4] * 3):
        cfg = dict(BASE_CFG); cfg.update(cfgo); cfg.update({'source_width': w, 'source_height': h})
        base = gen.enc_case(cfg, cont, {'n': min(n, 8), 'pacing': 'each'}, sim={'seed': 1, 'policy': 'np'}, machine={'cores': max(4, cfg.get('logical_processors', 4)), 'sockets': 1}, oracles={'decode': 0, 'parse': 0})
        fam = [base]
        for k in range(6 if tier == 'quick' else 12):
            c = copy.deepcopy(base); c['sim'] = dict(gen.schedule(rng, horizon=600 * n, allow_buggify=False), fine=rng.choice([3000, 10000, 40000, 150000])); fam.append(c)
        ffams.append(fam)
    flat = [c for fam in ffams for c in fam]
    rs = pmap(lambda c: run_case(c, 'fine'), flat); i = 0
    for fam in ffams:
        frs = rs[i:i + len(fam)]; i += len(fam); b = frs[0]
        for c, r in zip(fam, frs):
            ck.ev.add_run(c, r, _default_key(c, r)); ck.ev.probe('fine_preemptions', (r.get('sim') or {}).get('fine_preemptions', 0))
            for v in relabel(single_violations(c, r, 'fine'), 'C04', ('TERM', 'CRASH')):
                ck.add(v, 'single')
        if b.get('outcome') == 'ok':
            for c, r in zip(fam[1:], frs[1:]):
                if r.get('outcome') == 'ok' and out_key(r) != out_key(b):
                    kind, det = props.diff_detail(b, r)
                    ck.add(Violation('C04', 'DIFF', kind, det, c, 'fine', family=[fam[0], c]), 'diff_C04')
    # memory-access preemption (build variant "mem", DESIGN.md 13.7): threads are also switched between individual loads and stores of library C code
    core.build('mem'); mfams = []
    for (cfgo, cont, n, (w, h)) in (C04_CORPUS[:1] + C04_CORPUS[3:4] if tier == 'quick' else C04_CORPUS[:4] * 2):
        cfg = dict(BASE_CFG); cfg.update(cfgo); cfg.update({'source_width': w, 'source_height': h})
        base = gen.enc_case(cfg, cont, {'n': min(n, 6), 'pacing': 'each'}, sim={'seed': 1, 'policy': 'np'}, machine={'cores': max(4, cfg.get('logical_processors', 4)), 'sockets': 1}, oracles={'decode': 0, 'parse': 0})
        fam = [base]
        for k in range(5 if tier == 'quick' else 10):
            c = copy.deepcopy(base); c['sim'] = dict(gen.schedule(rng, horizon=600 * n, allow_buggify=False), mem=rng.choice([20000, 100000, 500000])); fam.append(c)
        mfams.append(fam)
    flat = [c for fam in mfams for c in fam]
    rs = pmap(lambda c: run_case(c, 'mem'), flat); i = 0
    for fam in mfams:
        frs = rs[i:i + len(fam)]; i += len(fam); b = frs[0]
        for c, r in zip(fam, frs):
            ck.ev.add_run(c, r, _default_key(c, r)); ck.ev.fault('mem_preemption', (r.get('sim') or {}).get('mem_preemptions', 0))
            for v in relabel(single_violations(c, r, 'mem'), 'C04', ('TERM', 'CRASH')):
                ck.add(v, 'single')
        if b.get('outcome') == 'ok':
            for c, r in zip(fam[1:], frs[1:]):
                if r.get('outcome') == 'ok' and out_key(r) != out_key(b):
                    kind, det = props.diff_detail(b, r)
                    ck.add(Violation('C04', 'DIFF', kind, det, c, 'mem', family=[fam[0], c]), 'diff_C04')
    ck.ev.extra['families_rounds'] = rounds
    return ck.finish()
