/* C bridge to the C++ harness (main.cc) for component worlds written in C. */
#ifndef BRIDGE_H
#define BRIDGE_H
long long c_case_int(const char *path, long long def);
void c_result_int(const char *key, long long v);
void c_result_str(const char *key, const char *v);
void c_result_push_int(const char *key, long long v);
void c_oracle_fail(const char *name, const char *detail);
void c_sim_start(void);
void c_events_summary(void);
#endif
