// Stream generator: the libaom 3.6.0 *encoder* (dlopen, hand-declared ABI, probed) produces AV1 streams that use
// coding tools the SVT encoder never emits (compound wedge / difference-weighted / distance-weighted prediction, switchable
// dual interpolation filters, segmentation, delta-q/delta-lf, skip mode, intra block copy + palette in libaom's own style,
// film-grain test vectors, 64-point transforms ...).  Not a simulated world: it only writes a .tu file (length-prefixed temporal
// units) that the decoder worlds consume.  The stream is kept only if dav1d and the libaom decoder agree on every picture.
#include "common.h"
#include "content.h"
#include "../oracles/refdec.h"
#include "../oracles/obu.h"
#include <dlfcn.h>
#include <cstring>
#include <cstdio>
#include <memory>

namespace {
struct Ctx { const char *name; void *iface; int err; const char *err_detail; long init_flags; void *config; void *priv; };
struct Lib {
    void *l = nullptr;
    void *(*cx)(void) = nullptr; int (*cfgdef)(void *, void *, unsigned) = nullptr; int (*init)(Ctx *, void *, void *, long, int) = nullptr;
    int (*enc)(Ctx *, void *, int64_t, unsigned long, long) = nullptr; void *(*getcx)(Ctx *, void **) = nullptr; void *(*imgalloc)(void *, int, unsigned, unsigned, unsigned) = nullptr;
    void (*imgfree)(void *) = nullptr; int (*setopt)(Ctx *, const char *, const char *) = nullptr; int (*destroy)(Ctx *) = nullptr; const char *(*ver)(void) = nullptr;
    bool open(std::string &err) {
        l = dlopen("libaom.so.3", RTLD_NOW | RTLD_LOCAL); if (!l) { err = "dlopen libaom.so.3 failed"; return false; }
#define SYM(v, n) *(void **)(&v) = dlsym(l, n); if (!v) { err = std::string("missing ") + n; return false; }
        SYM(cx, "aom_codec_av1_cx") SYM(cfgdef, "aom_codec_enc_config_default") SYM(init, "aom_codec_enc_init_ver") SYM(enc, "aom_codec_encode") SYM(getcx, "aom_codec_get_cx_data")
        SYM(imgalloc, "aom_img_alloc") SYM(imgfree, "aom_img_free") SYM(setopt, "aom_codec_set_option") SYM(destroy, "aom_codec_destroy") SYM(ver, "aom_codec_version_str")
#undef SYM
        return true;
    }
};
}

void run_aomenc_world() {
    std::string err; Lib L;
    auto fail = [&](const std::string &d) { g_result.set("outcome", "UNAVAILABLE"); g_result.set("detail", d); finish(); };
    if (!L.open(err)) fail(err);
    Content c; content_from_json(g_case["content"], c); int W = c.w, H = c.h, n = c.n; bool hbd = c.bd > 8;
    std::vector<unsigned> cfg(4096, 0);
    unsigned usage = (unsigned)g_case.geti("usage", 0);
    if (L.cfgdef(L.cx(), cfg.data(), usage)) fail("aom_codec_enc_config_default failed");
    // layout probe (aom_codec_enc_cfg_t of 3.6.0): g_w/g_h defaults 320x240, timebase 1/30, resize/superres denominators 8
    if (!(cfg[3] == 320 && cfg[4] == 240 && cfg[8] == 8 && cfg[9] == 8 && cfg[10] == 1 && cfg[11] == 30 && cfg[17] == 8 && cfg[18] == 8)) fail("aom_codec_enc_cfg_t layout probe failed");
    cfg[1] = 1; cfg[3] = (unsigned)W; cfg[4] = (unsigned)H; cfg[14] = (unsigned)g_case.geti("lag", 8);
    if (hbd) { cfg[8] = 10; cfg[9] = 10; }
    if (g_case.has("error_resilient")) cfg[12] = (unsigned)g_case.geti("error_resilient", 0);
    if (g_case.has("superres_mode")) { cfg[19] = (unsigned)g_case.geti("superres_mode", 0); cfg[20] = (unsigned)g_case.geti("superres_denom", 12); cfg[21] = (unsigned)g_case.geti("superres_kf_denom", 12); }
    if (g_case.has("end_usage")) cfg[24] = (unsigned)g_case.geti("end_usage", 0);
    if (cfg[34] == 256 && cfg[35] == 0 && cfg[36] == 63) {   // rc_target_bitrate / rc_min_quantizer / rc_max_quantizer (probed by their defaults)
        if (g_case.has("min_q")) cfg[35] = (unsigned)g_case.geti("min_q", 0);
        if (g_case.has("max_q")) cfg[36] = (unsigned)g_case.geti("max_q", 63);
        if (g_case.has("bitrate")) cfg[34] = (unsigned)g_case.geti("bitrate", 256);
    } else if (g_case.has("min_q") || g_case.has("max_q")) fail("rate-control field layout probe failed");
    Ctx ctx; int abi = -1;
    for (int v = 20; v < 40; v++) { memset(&ctx, 0, sizeof ctx); if (L.init(&ctx, L.cx(), cfg.data(), hbd ? 0x40000 : 0, v) == 0) { abi = v; break; } }
    if (abi < 0) fail("no encoder ABI version accepted");
    g_result.set("aom_version", std::string(L.ver())); g_result.set("aom_enc_abi", abi);
    J rejected = J::arr();
    if (g_case.has("options")) for (auto &kv : g_case["options"].o) { std::string v = kv.second.t == J::STR ? kv.second.s : std::to_string(kv.second.I()); if (L.setopt(&ctx, kv.first.c_str(), v.c_str())) rejected.push(kv.first); }
    g_result.set("options_rejected", rejected);
    std::vector<uint8_t> img(1024, 0);
    if (!L.imgalloc(img.data(), hbd ? 0x902 : 0x102, (unsigned)W, (unsigned)H, 32)) fail("aom_img_alloc failed");
    if (((unsigned *)img.data())[7] != (unsigned)W || ((unsigned *)img.data())[8] != (unsigned)H) fail("aom_image_t layout probe failed");
    uint8_t **pl = (uint8_t **)(img.data() + 64); int *st = (int *)(img.data() + 88);
    std::vector<std::vector<uint8_t>> tus; bool ok = true;
    auto collect = [&]() { int got = 0; void *it = nullptr; uint8_t *pk; while ((pk = (uint8_t *)L.getcx(&ctx, &it))) if (*(int *)pk == 0) { const uint8_t *b = *(uint8_t **)(pk + 8); size_t sz = *(size_t *)(pk + 16); tus.emplace_back(b, b + sz); got++; } return got; };
    for (int f = 0; f < n && ok; f++) {
        std::vector<uint16_t> Y, U, V; gen_frame(c, f, Y, U, V);
        auto put = [&](uint8_t *d, int stride, const std::vector<uint16_t> &s, int w, int h) { for (int y = 0; y < h; y++) for (int x = 0; x < w; x++) { if (hbd) ((uint16_t *)(d + (size_t)y * stride))[x] = s[(size_t)y * w + x]; else d[(size_t)y * stride + x] = (uint8_t)s[(size_t)y * w + x]; } };
        put(pl[0], st[0], Y, W, H); put(pl[1], st[1], U, W / 2, H / 2); put(pl[2], st[2], V, W / 2, H / 2);
        if (L.enc(&ctx, img.data(), f, 1, 0)) { ok = false; err = ctx.err_detail ? ctx.err_detail : "aom_codec_encode failed"; break; }
        collect();
    }
    for (int k = 0; k < 200 && ok; k++) { if (L.enc(&ctx, nullptr, n + k, 1, 0)) { ok = false; break; } if (!collect()) break; }
    L.imgfree(img.data()); L.destroy(&ctx);
    if (!ok) fail("encode failed: " + err);
    // keep only streams both reference decoders decode identically to n pictures
    std::unique_ptr<refdec::Decoder> d1(refdec::open_dav1d(err)), d2(refdec::open_libaom(err));
    if (!d1 || !d2) fail("reference decoders unavailable");
    std::vector<refdec::Picture> p1, p2; bool agree = true;
    for (auto &t : tus) { if (!d1->decode(t.data(), t.size(), p1, err) || !d2->decode(t.data(), t.size(), p2, err)) { agree = false; break; } }
    if (agree) { d1->flush(p1, err); d2->flush(p2, err); if (p1.size() != (size_t)n || p2.size() != (size_t)n) agree = false; else for (int i = 0; i < n; i++) if (p1[i].data != p2[i].data) agree = false; }
    g_result.set("tus", (uint64_t)tus.size()); g_result.set("pictures", (uint64_t)p1.size()); g_result.set("refdec_agree", agree);
    if (!agree) { g_result.set("outcome", "UNAVAILABLE"); g_result.set("detail", "reference decoders do not agree on this stream"); finish(); }
    {   // which header-level tools does the stream use (independent parser)
        obu::Parser P; J t = J::obj(); auto bump = [&](const char *k, int v) { if (v) t.set(k, t.geti(k, 0) + 1); }; int perr = 0;
        for (auto &tu : tus) { obu::TuReport R = P.parse_tu(tu.data(), tu.size()); perr += (int)R.errors.size();
            for (auto &fr : R.frames) { const obu::FrameHdr &h = fr.h; if (h.show_existing) { bump("show_existing", 1); continue; }
                bump("segmentation", h.seg_enabled); bump("delta_q", h.delta_q_present); bump("reference_select", h.reference_select); bump("skip_mode", h.skip_mode_present); bump("intrabc", h.allow_intrabc);
                bump("screen_content_tools", h.allow_sct); bump("warped", h.allow_warped); bump("superres", h.use_superres); bump("film_grain", h.fg.apply); bump("tx_mode_select", h.tx_mode_select);
                bump("reduced_tx_set", h.reduced_tx_set); bump("hidden_frame", !h.show_frame); bump("multi_tile", fr.tile_sizes.size() > 1); bump("switchable_motion_mode", h.motion_mode_switchable);
                int gm = 0; for (int r = 1; r <= 7; r++) gm |= h.gm_type[r]; bump("global_motion", gm); bump("loop_restoration", h.lr_type[0] | h.lr_type[1] | h.lr_type[2]); bump("cdef", h.cdef_bits); bump("error_resilient", h.error_res); } }
        t.set("parse_errors", perr); t.set("seq_jnt_comp", P.seq.enable_jnt_comp); t.set("seq_masked_compound", P.seq.enable_masked_compound); t.set("seq_interintra", P.seq.enable_interintra); t.set("seq_dual_filter", P.seq.enable_dual_filter);
        t.set("seq_use_128", P.seq.use_128); t.set("seq_filter_intra", P.seq.enable_filter_intra); g_result.set("hdr_tools", t); }
    std::string pre = g_case.gets("dump", "");
    if (!pre.empty()) { FILE *f = fopen((pre + ".tu").c_str(), "wb"); if (f) { for (auto &t : tus) { uint32_t k = (uint32_t)t.size(); fwrite(&k, 4, 1, f); fwrite(t.data(), 1, k, f); } fclose(f); } }
    uint64_t h = fnv_init(); size_t bytes = 0; for (auto &t : tus) { h = fnv1a(h, t.data(), t.size()); bytes += t.size(); } g_result.set("stream_hash", hex64(h)); g_result.set("bytes", (uint64_t)bytes);
}
