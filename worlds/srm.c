/* W5: the real EbSystemResourceManager.c + EbThreads.c under the scheduler, driven by synthetic
 * producers, consumers (blocking / non-blocking poller), multi-holder releasers and a shutdown.
 * The event ledger (events.cc) checks the SRM's own invariants; this file adds end-to-end
 * payload checks (exactly-once, single-consumer order, holder exclusivity).  DESIGN.md §7 C23. */
#include <stdio.h>
#include <stdlib.h>
#include <string.h>
#include <stdint.h>
#include <pthread.h>
#include <semaphore.h>
#include <errno.h>
#include "EbSystemResourceManager.h"
#include "EbThreads.h"
#include "bridge.h"
#include "simcore.h"

typedef struct { EbDctor dctor; int id; int payload; int producer; } Obj;
static int next_id;
static EbErrorType obj_ctor(Obj *o, EbPtr init) { (void)init; o->id = next_id++; return EB_ErrorNone; }
static EbErrorType obj_creator(EbPtr *pp, EbPtr init) { Obj *o; *pp = NULL; EB_NEW(o, obj_ctor, init); *pp = o; return EB_ErrorNone; }

#define MAXP 4096
static EbSystemResource *res;
static int NOBJ, NPROD, NCONS, PER, POLLER, EXTRA, EARLY, BODY_YIELDS, NREL;
static int holder[64];            /* 0 = nobody, else 1+task */
static int posted[MAXP], nposted, delivered[MAXP], ndelivered, delivered_count[MAXP];
static int next_payload;
static sem_t done_sem, rel_sem; static pthread_mutex_t post_mu; static pthread_mutex_t rel_mu; static EbObjectWrapper *rel_q[MAXP]; static int rel_n[MAXP], rel_head, rel_tail; static int rel_stop;
static int cons_returned[8]; static long shutdown_rets;
static void sem_wait_retry(sem_t *s) { while (sem_wait(s) == -1 && errno == EINTR) {} }
static void failf(const char *name, const char *fmt, int a, int b) { char d[256]; snprintf(d, sizeof d, fmt, a, b); c_oracle_fail(name, d); }

static void *producer(void *a) {
    int p = (int)(intptr_t)a; EbFifo *f = svt_system_resource_get_producer_fifo(res, p);
    for (int i = 0; i < PER; i++) {
        EbObjectWrapper *w; svt_get_empty_object(f, &w); Obj *o = w->object_ptr;
        if (holder[o->id]) failf("srm_two_holders", "object %d handed to a producer while held by task %d", o->id, holder[o->id] - 1);
        holder[o->id] = 1 + 100 + p;
        for (int y = 0; y < BODY_YIELDS; y++) sim_yield();
        pthread_mutex_lock(&post_mu);
        o->payload = next_payload++; o->producer = p; if (nposted < MAXP) posted[nposted++] = o->payload;
        holder[o->id] = 0;
        svt_post_full_object(w);
        pthread_mutex_unlock(&post_mu);
    }
    return NULL;
}
static void consume(EbObjectWrapper *w, int c) {
    Obj *o = w->object_ptr;
    if (holder[o->id]) failf("srm_two_holders", "object %d delivered while held by task %d", o->id, holder[o->id] - 1);
    holder[o->id] = 1 + 200 + c;
    if (o->payload >= 0 && o->payload < MAXP) delivered_count[o->payload]++;
    if (ndelivered < MAXP) delivered[ndelivered++] = o->payload;
    for (int y = 0; y < BODY_YIELDS; y++) sim_yield();
    int extra = EXTRA ? (o->payload % (EXTRA + 1)) : 0;
    holder[o->id] = 0;
    if (extra && NREL) {
        svt_object_inc_live_count(w, (uint32_t)extra + 1);
        pthread_mutex_lock(&rel_mu); rel_q[rel_tail % MAXP] = w; rel_n[rel_tail % MAXP] = extra; rel_tail++; pthread_mutex_unlock(&rel_mu);
        for (int k = 0; k < extra; k++) sem_post(&rel_sem);
        svt_release_object(w);
    } else svt_release_object(w);
    sem_post(&done_sem);
}
static void *consumer(void *a) {
    int c = (int)(intptr_t)a; EbFifo *f = svt_system_resource_get_consumer_fifo(res, c);
    for (;;) {
        EbObjectWrapper *w = NULL; EbErrorType e = svt_get_full_object(f, &w);
        if (e == EB_NoErrorFifoShutdown) { shutdown_rets++; break; }
        if (!w) { c_oracle_fail("srm_null_delivery", "blocking get_full returned NULL without shutdown"); break; }
        consume(w, c);
    }
    cons_returned[c] = 1; return NULL;
}
static volatile int poll_stop;
static void *poller(void *a) { /* non-blocking consumer on fifo 0 (the way the application polls packets) */
    (void)a; EbFifo *f = svt_system_resource_get_consumer_fifo(res, 0);
    while (!poll_stop) { EbObjectWrapper *w = NULL; svt_get_full_object_non_blocking(f, &w); if (w) consume(w, 0); else sim_yield(); }
    cons_returned[0] = 1; return NULL;
}
static void *releaser(void *a) {
    (void)a;
    for (;;) {
        EbObjectWrapper *w = NULL; int n = 0;
        sem_wait_retry(&rel_sem);
        pthread_mutex_lock(&rel_mu); if (rel_head < rel_tail) { w = rel_q[rel_head % MAXP]; n = rel_n[rel_head % MAXP]; if (n > 1) rel_n[rel_head % MAXP] = n - 1; else rel_head++; } int stop = rel_stop; pthread_mutex_unlock(&rel_mu);
        if (w) svt_release_object(w); else if (stop) break;
    }
    return NULL;
}

static EbErrorType build(void) { EB_NEW(res, svt_system_resource_ctor, (uint32_t)NOBJ, (uint32_t)NPROD, (uint32_t)NCONS, obj_creator, NULL, NULL); return EB_ErrorNone; }
void srm_world_main(void) {
    NOBJ = (int)c_case_int("srm.objects", 3); NPROD = (int)c_case_int("srm.producers", 2); NCONS = (int)c_case_int("srm.consumers", 2); PER = (int)c_case_int("srm.per_producer", 10);
    POLLER = (int)c_case_int("srm.poller", 0); EXTRA = (int)c_case_int("srm.extra_refs", 0); EARLY = (int)c_case_int("srm.early_shutdown_after", -1); BODY_YIELDS = (int)c_case_int("srm.body_yields", 1); NREL = (int)c_case_int("srm.releasers", EXTRA ? 1 : 0);
    if (POLLER) NCONS = 1;
    if (NPROD * PER > MAXP) PER = MAXP / NPROD;
    c_sim_start();
    sim_api_enter(); /* allocations below are library allocations (ledger) */
    if (build() != EB_ErrorNone) { c_oracle_fail("harness", "construction failed"); return; }
    sim_api_exit();
    sem_init(&done_sem, 0, 0); sem_init(&rel_sem, 0, 0); pthread_mutex_init(&rel_mu, NULL); pthread_mutex_init(&post_mu, NULL);
    pthread_t pt[8], ct[8], rt[4];
    if (POLLER) pthread_create(&ct[0], NULL, poller, NULL); else for (int c = 0; c < NCONS; c++) pthread_create(&ct[c], NULL, consumer, (void *)(intptr_t)c);
    for (int r = 0; r < NREL; r++) pthread_create(&rt[r], NULL, releaser, NULL);
    for (int p = 0; p < NPROD; p++) pthread_create(&pt[p], NULL, producer, (void *)(intptr_t)p);
    int total = NPROD * PER; int waitn = (EARLY >= 0 && EARLY < total) ? EARLY : total;
    if (EARLY >= 0 && EARLY < total) {
        /* early shutdown: producers must not be left blocked, so first let all posts happen, consuming only `EARLY` of them is not controllable; instead shut down once `EARLY` deliveries happened and producers finished */
        for (int i = 0; i < waitn; i++) sem_wait_retry(&done_sem);
    } else for (int i = 0; i < total; i++) sem_wait_retry(&done_sem);
    if (!(EARLY >= 0 && EARLY < total)) for (int p = 0; p < NPROD; p++) pthread_join(pt[p], NULL);
    poll_stop = 1;
    svt_shutdown_process(res);
    if (POLLER) pthread_join(ct[0], NULL); else for (int c = 0; c < NCONS; c++) pthread_join(ct[c], NULL);
    if (EARLY >= 0 && EARLY < total) {
        /* consumers are gone; drain what producers still need so that they can finish: release nothing, but producers may block forever on get_empty -> only join them if everything they need is already free */
        /* objects still queued stay queued; producers blocked on the empty pool are the application's problem, not the SRM's: detach by finishing the run here */
        c_result_int("early_shutdown", 1);
    }
    pthread_mutex_lock(&rel_mu); rel_stop = 1; pthread_mutex_unlock(&rel_mu);
    for (int r = 0; r < NREL; r++) sem_post(&rel_sem);
    for (int r = 0; r < NREL; r++) pthread_join(rt[r], NULL);
    for (int c = 0; c < NCONS; c++) if (!cons_returned[c]) failf("srm_consumer_stuck", "consumer %d did not return after shutdown (%d)", c, 0);
    if (!(EARLY >= 0 && EARLY < total)) {
        if (ndelivered != total) failf("srm_lost_object", "%d payloads delivered, %d posted", ndelivered, total);
        for (int i = 0; i < total && i < MAXP; i++) if (delivered_count[i] != 1) { failf("srm_not_exactly_once", "payload %d delivered %d times", i, delivered_count[i]); break; }
        if (NCONS == 1) for (int i = 0; i < ndelivered && i < nposted; i++) if (delivered[i] != posted[i]) { failf("srm_delivery_order", "single consumer got payload %d at position %d", delivered[i], i); break; }
        sim_api_enter(); EB_DELETE(res); sim_api_exit();
    }
    c_result_int("posted", nposted); c_result_int("delivered", ndelivered); c_result_int("shutdown_returns_seen", shutdown_rets);
    c_events_summary();
    if (!(EARLY >= 0 && EARLY < total)) sim_stop();
}
