// W1/W3/W4: whole-encoder world.  The application is a simulated task executing an explicit
// program of API operations; every oracle that needs only this run is evaluated here.
#include "common.h"
#include "content.h"
#include "../oracles/obu.h"
#include "../oracles/refdec.h"
#include <cstring>
#include <cstdlib>
#include <cstdio>
#include <memory>
#include <algorithm>
#include <pthread.h>
extern "C" {
#include "EbSvtAv1Enc.h"
#include "EbSvtAv1Dec.h"
}

struct Packet { int session; uint32_t size; int64_t pts, dts; uint32_t flags, pic_type, qp, sse[3]; uint64_t priv; std::vector<uint8_t> data; uint64_t got_at; uint32_t tick; };
struct Recon { int session; int64_t pts; uint32_t flags, len; std::vector<uint8_t> data; };

// ---- configuration fields by name ---------------------------------------------------------------
#define CFG_FIELDS(X) \
    X(enc_mode) X(intra_period_length) X(intra_refresh_type) X(hierarchical_levels) X(pred_structure) X(source_width) X(source_height) X(render_width) X(render_height) \
    X(frame_rate) X(frame_rate_numerator) X(frame_rate_denominator) X(encoder_bit_depth) X(is_16bit_pipeline) X(compressed_ten_bit_format) X(sb_sz) X(super_block_size) \
    X(partition_depth) X(stat_report) X(qp) X(use_qp_file) X(use_fixed_qindex_offsets) X(key_frame_chroma_qindex_offset) X(key_frame_qindex_offset) X(rc_firstpass_stats_out) \
    X(enable_qp_scaling_flag) X(disable_dlf_flag) X(enable_denoise_flag) X(film_grain_denoise_strength) X(enable_warped_motion) X(enable_global_motion) X(cdef_level) \
    X(enable_restoration_filtering) X(sg_filter_mode) X(wn_filter_mode) X(intra_angle_delta) X(inter_intra_compound) X(enable_paeth) X(mrp_level) X(enable_smooth) X(enable_mfmv) \
    X(enable_redundant_blk) X(spatial_sse_full_loop_level) X(over_bndry_blk) X(new_nearest_comb_inject) X(nsq_table) X(frame_end_cdf_update) X(pred_me) X(bipred_3x3_inject) \
    X(compound_level) X(set_chroma_mode) X(disable_cfl_flag) X(obmc_level) X(rdoq_level) X(filter_intra_level) X(enable_intra_edge_filter) X(pic_based_rate_est) X(use_default_me_hme) \
    X(enable_hme_flag) X(ext_block_flag) X(in_loop_me_flag) X(search_area_width) X(search_area_height) X(enable_hbd_mode_decision) X(palette_level) X(rate_control_mode) \
    X(scene_change_detection) X(look_ahead_distance) X(enable_tpl_la) X(target_bit_rate) X(vbv_bufsize) X(max_qp_allowed) X(min_qp_allowed) X(vbr_bias_pct) X(vbr_min_section_pct) \
    X(vbr_max_section_pct) X(under_shoot_pct) X(over_shoot_pct) X(recode_loop) X(screen_content_mode) X(intrabc_mode) X(enable_adaptive_quantization) X(high_dynamic_range_input) \
    X(profile) X(tier) X(level) X(use_cpu_flags) X(channel_id) X(active_channel_count) X(speed_control_flag) X(injector_frame_rate) X(unrestricted_motion_vector) X(logical_processors) \
    X(unpin) X(target_socket) X(recon_enabled) X(tile_columns) X(tile_rows) X(enable_hme_level0_flag) X(enable_hme_level1_flag) X(enable_hme_level2_flag) X(ten_bit_format) X(tf_level) \
    X(altref_strength) X(altref_nframes) X(enable_overlays) X(superres_mode) X(superres_denom) X(superres_kf_denom) X(superres_qthres) X(enable_manual_pred_struct) X(manual_pred_struct_entry_num)

static bool cfg_set(EbSvtAv1EncConfiguration &c, const std::string &k, const J &v) {
#define X(f) if (k == #f) { c.f = (decltype(c.f))v.I(); return true; }
    CFG_FIELDS(X)
#undef X
    if (k == "encoder_color_format") { c.encoder_color_format = (EbColorFormat)v.I(); return true; }
    if (k == "qindex_offsets") { for (size_t i = 0; i < v.a.size() && i < EB_MAX_TEMPORAL_LAYERS; i++) c.qindex_offsets[i] = (int32_t)v.a[i].I(); return true; }
    if (k == "chroma_qindex_offsets") { for (size_t i = 0; i < v.a.size() && i < EB_MAX_TEMPORAL_LAYERS; i++) c.chroma_qindex_offsets[i] = (int32_t)v.a[i].I(); return true; }
    return false;
}
static J cfg_dump(const EbSvtAv1EncConfiguration &c) {
    J o = J::obj();
#define X(f) o.set(#f, (long long)c.f);
    CFG_FIELDS(X)
#undef X
    o.set("encoder_color_format", (int)c.encoder_color_format);
    o.set("rc_twopass_stats_in_sz", (uint64_t)c.rc_twopass_stats_in.sz); o.set("rc_twopass_stats_in_null", c.rc_twopass_stats_in.buf == nullptr);
    return o;
}

// ---- one encoder instance driven by a program ---------------------------------------------------
struct Instance {
    int id = 0;
    J cfgj, contentj, program; std::string prefill = "zero"; uint64_t prefill_seed = 0;
    Content content;
    EbComponentType *h = nullptr; bool handle_valid = false;
    EbSvtAv1EncConfiguration *cfg = nullptr; // lives in caller memory we control
    std::vector<uint8_t> cfg_mem;
    EbBufferHeaderType *stream_hdr = nullptr; std::vector<uint8_t> stream_hdr_bytes;
    std::vector<Packet> packets; std::vector<Recon> recons;
    std::vector<uint8_t> saved_stats;
    int session = 0; bool eos_sent = false, eos_packet = false, eos_recon = false; int sent = 0;
    J history = J::arr();
    uint8_t *reuse_buf = nullptr; size_t reuse_len = 0;
    J ledger_sessions = J::arr();
    std::vector<EbBufferHeaderType *> held; // packets the app got but has not released yet
    uint64_t inflight_max = 0;
    bool blocked_in_drain = false;
    bool setup_failed = false; std::string last_failed_op;
    bool is_dec = false; J decj, decout = J::obj();   // W4: a decoder instance among encoder instances
};
void dec_instance_run(const J &inst, J &out);   // dec.cc

static void hist(Instance &I, size_t idx, const std::string &op, long ret, uint64_t d0, const J &extra = J()) {
    J e = J::arr(); e.push((uint64_t)idx); e.push(op); e.push((long long)ret); e.push(d0); e.push(sim_decision()); e.push(sim_alloc_counter());
    if (extra.t != J::NUL) e.push(extra);
    I.history.push(e);
}

static void prefill_cfg(Instance &I) {
    // caller-owned configuration memory with seeded prior contents (C13)
    size_t n = sizeof(EbSvtAv1EncConfiguration);
    I.cfg_mem.assign(n + 64, 0);
    uint8_t *p = I.cfg_mem.data() + 32;
    if (I.prefill == "ff") memset(p, 0xff, n);
    else if (I.prefill == "aa") memset(p, 0xaa, n);
    else if (I.prefill == "rand") { Rng r(I.prefill_seed); for (size_t i = 0; i < n; i++) p[i] = (uint8_t)r.next(); }
    else if (I.prefill == "prev") { // a maximally non-default earlier configuration left in the same memory
        EbSvtAv1EncConfiguration *c = (EbSvtAv1EncConfiguration *)p; Rng r(I.prefill_seed);
        for (size_t i = 0; i < n; i++) p[i] = (uint8_t)(r.next() & 3 ? 1 : 2);
        c->rc_twopass_stats_in.buf = (void *)p; c->rc_twopass_stats_in.sz = 4096 + r.below(100000);
        c->rc_firstpass_stats_out = 1; c->enc_mode = 3; c->rate_control_mode = 2; c->superres_mode = 2; c->film_grain_denoise_strength = 30; c->tile_columns = 2; c->tile_rows = 2;
        c->enable_manual_pred_struct = 1; c->manual_pred_struct_entry_num = 3; c->use_qp_file = 1; c->use_fixed_qindex_offsets = 1;
    }
    I.cfg = (EbSvtAv1EncConfiguration *)p;
}
static void apply_cfg(Instance &I) {
    for (auto &kv : I.cfgj.o) {
        if (kv.first == "use_saved_stats") { if (kv.second.I()) { I.cfg->rc_twopass_stats_in.buf = I.saved_stats.data(); I.cfg->rc_twopass_stats_in.sz = I.saved_stats.size(); } continue; }
        if (!cfg_set(*I.cfg, kv.first, kv.second)) { fprintf(stderr, "HARNESS unknown cfg field %s\n", kv.first.c_str()); g_result.set("outcome", "HARNESS_ERROR"); g_result.set("detail", "unknown cfg field " + kv.first); finish(); }
    }
}

struct InputPic { std::vector<uint8_t> mem; EbSvtIOFormat io; };
static void build_input(Instance &I, int idx, InputPic &ip, uint8_t *reuse) {
    const Content &c = I.content; std::vector<uint16_t> Y, U, V; gen_frame(c, idx, Y, U, V);
    int W = c.w, H = c.h, cw = W / 2, ch = H / 2; int bps = c.bd > 8 ? 2 : 1;
    int ys = W + c.stride_pad, cs = cw + c.stride_pad_c, crs = cw + c.stride_pad_cr; int extra_rows = c.extra_rows;
    size_t ylen = (size_t)ys * (H + extra_rows) * bps, clen = (size_t)cs * (ch + extra_rows) * bps, crlen = (size_t)crs * (ch + extra_rows) * bps; size_t total = ylen + clen + crlen;
    uint8_t *base;
    if (reuse) base = reuse; else { ip.mem.assign(total, 0); base = ip.mem.data(); }
    Rng g(c.garbage_seed * 7919 + (uint64_t)idx);
    if (c.pad_garbage) for (size_t i = 0; i < total; i++) base[i] = (uint8_t)g.next(); else memset(base, 0, total);
    auto put = [&](uint8_t *dst, const std::vector<uint16_t> &src, int w, int h, int stride) {
        for (int y = 0; y < h; y++) for (int x = 0; x < w; x++) { uint16_t v = src[(size_t)y * w + x]; if (bps == 1) dst[(size_t)y * stride + x] = (uint8_t)v; else { dst[((size_t)y * stride + x) * 2] = (uint8_t)(v & 0xff); dst[((size_t)y * stride + x) * 2 + 1] = (uint8_t)(v >> 8); } }
    };
    put(base, Y, W, H, ys); put(base + ylen, U, cw, ch, cs); put(base + ylen + clen, V, cw, ch, crs);
    memset(&ip.io, 0, sizeof ip.io);
    ip.io.luma = base; ip.io.cb = base + ylen; ip.io.cr = base + ylen + clen; ip.io.y_stride = ys; ip.io.cb_stride = cs; ip.io.cr_stride = crs;
    ip.io.width = W; ip.io.height = H; ip.io.color_fmt = EB_YUV420; ip.io.bit_depth = c.bd > 8 ? EB_TEN_BIT : EB_EIGHT_BIT;
}
static size_t input_total(const Content &c) { int bps = c.bd > 8 ? 2 : 1; return ((size_t)(c.w + c.stride_pad) * (c.h + c.extra_rows) + (size_t)(c.w / 2 + c.stride_pad_c) * (c.h / 2 + c.extra_rows) + (size_t)(c.w / 2 + c.stride_pad_cr) * (c.h / 2 + c.extra_rows)) * bps; }

static void record_packet(Instance &I, EbBufferHeaderType *p) {
    Packet k; k.session = I.session; k.size = p->n_filled_len; k.pts = p->pts; k.dts = p->dts; k.flags = p->flags; k.pic_type = p->pic_type; k.qp = p->qp;
    k.sse[0] = p->luma_sse; k.sse[1] = p->cb_sse; k.sse[2] = p->cr_sse; k.priv = (uint64_t)(uintptr_t)p->p_app_private; k.got_at = sim_decision(); k.tick = p->n_tick_count;
    if (p->p_buffer && p->n_filled_len) k.data.assign(p->p_buffer, p->p_buffer + p->n_filled_len);
    if (p->flags & EB_BUFFERFLAG_EOS) I.eos_packet = true;
    I.packets.push_back(std::move(k));
    // an error packet (no payload, flags = internal error code) is the library's fatal-error report: the reporting thread then spins for ever
    // (CHECK_REPORT_ERROR_NC: error_handler(); while (1);), so nothing else will ever arrive - end the run here instead of waiting for the watchdog
    if (!p->n_filled_len && (p->flags & 0xfffffff0u) && sim_active()) { char b[96]; snprintf(b, sizeof b, "library reported internal error 0x%x in an error packet", p->flags); world_fatal("TRAP_ERROR_PACKET", b); }
}
static size_t recon_size(const Instance &I) { size_t l = (size_t)I.cfg->source_width * I.cfg->source_height; return (l + l / 2) << (I.cfg->encoder_bit_depth > 8); }
static int poll_recon(Instance &I, int maxn, bool null_handle, bool null_buf, long &last) {
    int got = 0; last = 0;
    for (int k = 0; k < maxn; k++) {
        std::vector<uint8_t> buf(recon_size(I) + 64); EbBufferHeaderType hd; Rng g(77 + I.recons.size()); uint8_t *hp = (uint8_t *)&hd; for (size_t i = 0; i < sizeof hd; i++) hp[i] = (uint8_t)g.next();
        hd.size = sizeof hd; hd.p_buffer = buf.data(); hd.n_alloc_len = (uint32_t)recon_size(I); hd.metadata = nullptr; hd.n_filled_len = 0; hd.flags = 0;
        sim_api_enter(); EbErrorType e = svt_av1_get_recon(null_handle ? nullptr : I.h, null_buf ? nullptr : &hd); sim_api_exit();
        last = e;
        if (e != EB_ErrorNone) break;
        Recon r; r.session = I.session; r.pts = hd.pts; r.flags = hd.flags; r.len = hd.n_filled_len; r.data.assign(buf.begin(), buf.begin() + std::min<size_t>(hd.n_filled_len, buf.size()));
        if (hd.flags & EB_BUFFERFLAG_EOS) I.eos_recon = true;
        I.recons.push_back(std::move(r)); got++;
    }
    return got;
}

static void run_program(Instance &I) {
    const J &prog = I.program;
    std::vector<std::string> count_in; if (g_case["mem"].has("count_in")) for (auto &s : g_case["mem"]["count_in"].a) count_in.push_back(s.s); else count_in = {"init_handle", "set_param", "init"};
    auto counted = [&](const std::string &op) { for (auto &s : count_in) if (s == op || s == "*") return true; return false; };
    for (size_t pc = 0; pc < prog.a.size(); pc++) {
        const J &o = prog.a[pc]; std::string op = o.gets("op", ""); std::string nul = o.gets("null", ""); uint64_t d0 = sim_decision();
        bool cnt = counted(op); if (cnt) sim_count_allocs(1);
        // an application stops using a session whose creation/configuration/initialisation failed: it only tears it down
        bool needs_handle = !(op == "init_handle" || op == "yield" || op == "barrier" || op == "session_end" || op == "release" || op == "stream_header_release");
        if (o.geti("retry_only", 0)) {   // an application that retries a failed configuration once (e.g. after a transient allocation failure)
            if (!(I.setup_failed && I.handle_valid && I.last_failed_op == "set_param")) { if (cnt) sim_count_allocs(0); continue; }
            I.setup_failed = false;
        }
        if (nul == "" && needs_handle && (!I.handle_valid || (I.setup_failed && op != "deinit" && op != "deinit_handle"))) { hist(I, pc, op, -9999, d0); if (cnt) sim_count_allocs(0); continue; }
        if (op == "init_handle") {
            prefill_cfg(I);
            EbComponentType *hh = (EbComponentType *)(uintptr_t)0xdeadbeefcafe;
            sim_api_enter(); EbErrorType e = svt_av1_enc_init_handle(nul == "handle" ? nullptr : &hh, (void *)(uintptr_t)0x5151, nul == "cfg" ? nullptr : I.cfg); sim_api_exit();
            if (e == EB_ErrorNone && nul != "handle") { I.h = hh; I.handle_valid = true; apply_cfg(I); }
            if (e != EB_ErrorNone && nul == "") { I.setup_failed = true; if (hh != (EbComponentType *)(uintptr_t)0xdeadbeefcafe && hh != nullptr) oracle_fail("init_handle_failed_but_set_handle", "svt_av1_enc_init_handle failed but left a non-NULL handle"); }
            hist(I, pc, op, e, d0);
        } else if (op == "set_param") {
            EbSvtAv1EncConfiguration save = *I.cfg;
            if (o.has("bad")) for (auto &kv : o["bad"].o) cfg_set(*I.cfg, kv.first, kv.second);
            if (o.has("set")) {   // per-session settings (e.g. first pass / second pass of a two-pass encode in one program)
                for (auto &kv : o["set"].o) {
                    if (kv.first == "use_saved_stats") { if (kv.second.I()) { I.cfg->rc_twopass_stats_in.buf = I.saved_stats.data(); I.cfg->rc_twopass_stats_in.sz = I.saved_stats.size(); } }
                    else cfg_set(*I.cfg, kv.first, kv.second);
                }
                save = *I.cfg;
            }
            sim_api_enter(); EbErrorType e = svt_av1_enc_set_parameter(nul == "handle" ? nullptr : I.h, nul == "cfg" ? nullptr : I.cfg); sim_api_exit();
            *I.cfg = save;
            if (e != EB_ErrorNone && nul == "" && !o.has("bad")) { I.setup_failed = true; I.last_failed_op = "set_param"; }
            hist(I, pc, op, e, d0);
        } else if (op == "init") {
            sim_api_enter(); EbErrorType e = svt_av1_enc_init(nul == "handle" ? nullptr : I.h); sim_api_exit(); if (e != EB_ErrorNone && nul == "") I.setup_failed = true; hist(I, pc, op, e, d0);
        } else if (op == "stream_header") {
            EbBufferHeaderType *sh = nullptr;
            sim_api_enter(); EbErrorType e = svt_av1_enc_stream_header(nul == "handle" ? nullptr : I.h, nul == "out" ? nullptr : &sh); sim_api_exit();
            if (e == EB_ErrorNone && sh) { I.stream_hdr = sh; I.stream_hdr_bytes.assign(sh->p_buffer, sh->p_buffer + sh->n_filled_len); }
            hist(I, pc, op, e, d0);
        } else if (op == "stream_header_release") {
            sim_api_enter(); EbErrorType e = svt_av1_enc_stream_header_release(nul == "buf" ? nullptr : I.stream_hdr); sim_api_exit(); if (nul != "buf") I.stream_hdr = nullptr; hist(I, pc, op, e, d0);
        } else if (op == "send" || op == "eos") {
            EbBufferHeaderType in; memset(&in, 0, sizeof in); in.size = sizeof in; InputPic ip;
            EbErrorType e;
            if (op == "send") {
                int idx = (int)o.geti("i", I.sent);
                size_t tot = input_total(I.content);
                if (I.content.reuse_buffer) { if (!I.reuse_buf) { I.reuse_buf = (uint8_t *)malloc(tot); I.reuse_len = tot; } }
                build_input(I, idx, ip, I.content.reuse_buffer ? I.reuse_buf : nullptr);
                in.p_buffer = (uint8_t *)&ip.io; in.n_filled_len = (uint32_t)tot; in.n_alloc_len = (uint32_t)tot;
                in.pts = o.has("pts") ? o["pts"].I() : idx; in.flags = 0; in.pic_type = EB_AV1_INVALID_PICTURE; in.p_app_private = (void *)(uintptr_t)(0x100000 + idx); in.qp = (uint32_t)o.geti("qp", 0);
                if (o.geti("eos_flag", 0)) in.flags = EB_BUFFERFLAG_EOS;
                sim_api_enter(); e = svt_av1_enc_send_picture(nul == "handle" ? nullptr : I.h, nul == "buf" ? nullptr : &in); sim_api_exit();
                if (nul == "") { I.sent++; if (o.geti("eos_flag", 0)) I.eos_sent = true; }
                if (I.content.scribble) { // the caller may overwrite or free its picture as soon as send returns (C21)
                    uint8_t *b = I.content.reuse_buffer ? I.reuse_buf : ip.mem.data(); Rng g(I.content.garbage_seed + 99 + idx); for (size_t i = 0; i < tot; i++) b[i] = (uint8_t)g.next();
                    memset(&ip.io, 0x5a, sizeof ip.io); memset(&in, 0x5a, sizeof in);
                }
            } else {
                in.p_buffer = nullptr; in.n_filled_len = 0; in.flags = EB_BUFFERFLAG_EOS; in.pts = I.sent; in.pic_type = EB_AV1_INVALID_PICTURE;
                sim_api_enter(); e = svt_av1_enc_send_picture(nul == "handle" ? nullptr : I.h, nul == "buf" ? nullptr : &in); sim_api_exit();
                if (nul == "") I.eos_sent = true;
            }
            hist(I, pc, op, e, d0);
        } else if (op == "get_packet") {
            int maxn = (int)o.geti("max", 1000000), block = (int)o.geti("block", 0), got = 0; long last = 0; bool hold = o.geti("hold", 0);
            for (int k = 0; k < maxn; k++) {
                EbBufferHeaderType *p = nullptr;
                sim_api_enter(); EbErrorType e = svt_av1_enc_get_packet(nul == "handle" ? nullptr : I.h, nul == "out" ? nullptr : &p, (unsigned char)block); sim_api_exit();
                last = e;
                if (e == EB_NoErrorEmptyQueue || !p) break;
                record_packet(I, p); got++;
                if (hold) I.held.push_back(p); else { sim_api_enter(); svt_av1_enc_release_out_buffer(&p); sim_api_exit(); }
                if (e != EB_ErrorNone) break;
                if (I.eos_packet) break;
            }
            J ex = J::obj(); ex.set("got", got); ex.set("last", (long long)last); hist(I, pc, op, last, d0, ex);
        } else if (op == "release_held") {
            for (auto *p : I.held) { sim_api_enter(); svt_av1_enc_release_out_buffer(&p); sim_api_exit(); } I.held.clear(); hist(I, pc, op, 0, d0);
        } else if (op == "release") { // argument variants of release_out_buffer
            sim_api_enter();
            if (nul == "ptr") svt_av1_enc_release_out_buffer(nullptr); else if (nul == "inner") { EbBufferHeaderType *p = nullptr; svt_av1_enc_release_out_buffer(&p); }
            sim_api_exit(); hist(I, pc, op, 0, d0);
        } else if (op == "get_recon") {
            long last; int got = poll_recon(I, (int)o.geti("max", 1000000), nul == "handle", nul == "buf", last);
            J ex = J::obj(); ex.set("got", got); hist(I, pc, op, last, d0, ex);
        } else if (op == "stream_info") {
            SvtAv1FixedBuf fb; memset(&fb, 0, sizeof fb);
            sim_api_enter(); EbErrorType e = svt_av1_enc_get_stream_info(nul == "handle" ? nullptr : I.h, (uint32_t)o.geti("id", SVT_AV1_STREAM_INFO_FIRST_PASS_STATS_OUT), nul == "info" ? nullptr : &fb); sim_api_exit();
            if (e == EB_ErrorNone && fb.buf && o.geti("save", 0)) I.saved_stats.assign((uint8_t *)fb.buf, (uint8_t *)fb.buf + fb.sz);
            J ex = J::obj(); ex.set("sz", (uint64_t)fb.sz); hist(I, pc, op, e, d0, ex);
        } else if (op == "drain") {
            // after EOS: blocking packet wait until the EOS packet; recon polled until its EOS (bounded)
            long last = 0; int got = 0; bool want_recon = I.cfg->recon_enabled && !o.geti("no_recon", 0);
            while (!I.eos_packet) {
                EbBufferHeaderType *p = nullptr;
                if (want_recon) { long l2; poll_recon(I, 1000000, false, false, l2); }
                I.blocked_in_drain = true;
                sim_api_enter(); EbErrorType e = svt_av1_enc_get_packet(I.h, &p, 1); sim_api_exit();
                I.blocked_in_drain = false;
                last = e; if (!p) break; record_packet(I, p); got++;
                sim_api_enter(); svt_av1_enc_release_out_buffer(&p); sim_api_exit();
                if (e != EB_ErrorNone) break;
            }
            if (want_recon) { int spins = 0; while (!I.eos_recon && spins < 200000) { long l2; if (!poll_recon(I, 1000000, false, false, l2)) { sim_yield(); spins++; } } if (!I.eos_recon) oracle_fail("recon_eos_missing", "recon EOS not delivered after packet EOS (bounded wait exhausted)"); }
            J ex = J::obj(); ex.set("got", got); hist(I, pc, op, last, d0, ex);
        } else if (op == "barrier") {   // multi-instance worlds: wait (yielding) until n instances have reached barrier id
            static int arrived[8]; int id = (int)o.geti("id", 0) & 7, need = (int)o.geti("n", 1);
            arrived[id]++; while (arrived[id] < need) sim_yield(); hist(I, pc, op, 0, d0);
        } else if (op == "yield") {
            sim_app_stall((int)o.geti("n", 1)); hist(I, pc, op, 0, d0);
        } else if (op == "deinit") {
            sim_api_enter(); EbErrorType e = svt_av1_enc_deinit(nul == "handle" ? nullptr : I.h); sim_api_exit(); hist(I, pc, op, e, d0);
        } else if (op == "deinit_handle") {
            sim_api_enter(); EbErrorType e = svt_av1_enc_deinit_handle(nul == "handle" ? nullptr : I.h); sim_api_exit(); if (nul == "") { I.h = nullptr; I.handle_valid = false; } hist(I, pc, op, e, d0);
        } else if (op == "session_end") {
            if (I.reuse_buf) { free(I.reuse_buf); I.reuse_buf = nullptr; }
            const SimStats *st = sim_stats(); J l = J::obj(); l.set("session", I.session); l.set("live_blocks", st->lib_live_blocks); l.set("live_bytes", st->lib_live_bytes);
            l.set("threads_created", st->threads_created); l.set("threads_exited", st->threads_exited); l.set("threads_joined", st->threads_joined);
            l.set("mutexes_live", (long long)st->mutexes_created - (long long)st->mutexes_destroyed); l.set("sems_live", (long long)st->sems_created - (long long)st->sems_destroyed);
            uint64_t sites[8], seqs[8]; size_t nlive = sim_live_blocks(sites, seqs, 8); J ls = J::arr(); for (size_t i = 0; i < std::min<size_t>(nlive, 8); i++) { J e = J::arr(); e.push(hex64(sites[i])); e.push(seqs[i]); ls.push(e); } l.set("live_sample", ls);
            I.ledger_sessions.push(l);
            I.session++; I.eos_sent = I.eos_packet = I.eos_recon = false; I.sent = 0; I.setup_failed = false; hist(I, pc, op, 0, d0);
        } else { g_result.set("outcome", "HARNESS_ERROR"); g_result.set("detail", "unknown op " + op); finish(); }
        if (cnt) sim_count_allocs(0);
    }
    if (I.reuse_buf) { free(I.reuse_buf); I.reuse_buf = nullptr; }
}

// ---- oracles evaluated on one finished instance -----------------------------------------------------
static J frame_json(const obu::FrameHdr &h) {
    J f = J::obj();
    f.set("se", h.show_existing); f.set("type", h.frame_type); f.set("show", h.show_frame); f.set("showable", h.showable); f.set("to_show", h.frame_to_show);
    f.set("q", h.base_q_idx); f.set("refresh", h.refresh_flags); f.set("oh", h.order_hint); f.set("err_res", h.error_res);
    f.set("tcl2", h.tile_cols_log2); f.set("trl2", h.tile_rows_log2); f.set("tc", h.tile_cols); f.set("tr", h.tile_rows); f.set("uniform", h.uniform_tiles);
    f.set("min_tcl2", h.min_log2_tile_cols); f.set("max_tcl2", h.max_log2_tile_cols); f.set("min_trl2", h.min_log2_tile_rows); f.set("max_trl2", h.max_log2_tile_rows);
    J lf = J::arr(); for (int i = 0; i < 4; i++) lf.push(h.lf_level[i]); f.set("lf", lf);
    int cdef_any = 0; for (int i = 0; i < 8; i++) cdef_any |= h.cdef_y_pri[i] | h.cdef_y_sec[i] | h.cdef_uv_pri[i] | h.cdef_uv_sec[i];
    f.set("cdef_bits", h.cdef_bits); f.set("cdef_any", cdef_any);
    J lr = J::arr(); for (int i = 0; i < 3; i++) lr.push(h.lr_type[i]); f.set("lr", lr);
    f.set("intrabc", h.allow_intrabc); f.set("sct", h.allow_sct); f.set("warped", h.allow_warped); f.set("mm_switch", h.motion_mode_switchable);
    int gm_any = 0; for (int r = 1; r <= 7; r++) gm_any |= h.gm_type[r]; f.set("gm_any", gm_any);
    f.set("superres", h.use_superres); f.set("denom", h.superres_denom); f.set("w", h.frame_w); f.set("h", h.frame_h); f.set("uw", h.upscaled_w);
    f.set("ref_select", h.reference_select); f.set("skip_mode", h.skip_mode_present); f.set("txsel", h.tx_mode_select); f.set("reduced_tx", h.reduced_tx_set);
    f.set("fg", h.fg.apply); f.set("fg_update", h.fg.update); f.set("fg_seed", h.fg.seed); f.set("dq", h.delta_q_present); f.set("seg", h.seg_enabled); f.set("prim_ref", h.primary_ref); f.set("intra", h.intra);
    f.set("dqydc", h.dq_y_dc); f.set("lossless", h.coded_lossless);
    return f;
}

static void pic_compare(const refdec::Picture &p, const uint8_t *buf, size_t len, int w, int h, int bd, const std::string &what, const std::string &failname) {
    int bps = bd > 8 ? 2 : 1; size_t need = ((size_t)w * h + 2 * (size_t)(w / 2) * (h / 2)) * bps;
    if (p.w != w || p.h != h || p.bpc != bd) { char b[200]; snprintf(b, sizeof b, "%s: decoded %dx%d@%d vs expected %dx%d@%d", what.c_str(), p.w, p.h, p.bpc, w, h, bd); oracle_fail(failname + "_geometry", b); return; }
    if (len != need || p.data.size() != need) { char b[200]; snprintf(b, sizeof b, "%s: size %zu vs decoded %zu (expected %zu)", what.c_str(), len, p.data.size(), need); oracle_fail(failname + "_size", b); return; }
    if (memcmp(p.data.data(), buf, need)) {
        size_t i = 0; while (i < need && p.data[i] == buf[i]) i++; size_t ndiff = 0; for (size_t k = i; k < need; k++) ndiff += p.data[k] != buf[k];
        size_t ysz = (size_t)w * h * bps; const char *plane = i < ysz ? "Y" : (i < ysz + ysz / 4 ? "Cb" : "Cr");
        char b[256]; snprintf(b, sizeof b, "%s: first mismatch in plane %s at byte %zu, %zu bytes differ", what.c_str(), plane, i, ndiff); oracle_fail(failname, b);
    }
}

static void instance_oracles(Instance &I, J &out) {
    const J &orc = g_case["oracles"];
    int last = I.session; // oracles look at the last session that produced packets
    for (int s = I.session; s >= 0; s--) { bool any = false; for (auto &p : I.packets) if (p.session == s) any = true; if (any) { last = s; break; } }
    std::vector<const Packet *> pk; for (auto &p : I.packets) if (p.session == last) pk.push_back(&p);
    std::vector<const Recon *> rc; for (auto &r : I.recons) if (r.session == last) rc.push_back(&r);
    // packets
    J pj = J::arr(); uint64_t sh = fnv_init();
    for (auto *p : pk) {
        J e = J::obj(); e.set("size", p->size); e.set("pts", (long long)p->pts); e.set("dts", (long long)p->dts); e.set("flags", p->flags); e.set("pic_type", p->pic_type); e.set("qp", p->qp);
        J sse = J::arr(); sse.push(p->sse[0]); sse.push(p->sse[1]); sse.push(p->sse[2]); e.set("sse", sse); e.set("priv", p->priv);
        uint64_t hsh = fnv1a(fnv_init(), p->data.data(), p->data.size()); e.set("hash", hex64(hsh)); sh = fnv1a(sh, &hsh, 8); e.set("at", p->got_at); e.set("tick", p->tick);
        pj.push(e);
    }
    out.set("packets", pj); out.set("stream_hash", hex64(sh)); out.set("npackets", (uint64_t)pk.size());
    J rj = J::arr(); std::vector<const Recon *> rs = rc; std::sort(rs.begin(), rs.end(), [](const Recon *a, const Recon *b) { return a->pts < b->pts; }); uint64_t rh = fnv_init();
    for (auto *r : rc) { J e = J::obj(); e.set("pts", (long long)r->pts); e.set("flags", r->flags); e.set("len", r->len); uint64_t hsh = fnv1a(fnv_init(), r->data.data(), r->data.size()); e.set("hash", hex64(hsh)); rj.push(e); }
    for (auto *r : rs) { uint64_t hsh = fnv1a(fnv_init(), r->data.data(), r->data.size()); rh = fnv1a(rh, &hsh, 8); rh = fnv1a(rh, &r->pts, 8); }
    out.set("recons", rj); out.set("recon_hash", hex64(rh));
    if (I.stream_hdr_bytes.size()) out.set("stream_header_hash", hex64(fnv1a(fnv_init(), I.stream_hdr_bytes.data(), I.stream_hdr_bytes.size())));
    if (pk.empty() || (!orc.geti("parse", 1) && !orc.geti("decode", 1) && !orc.geti("tool_usage", 0))) return;   // the parse also feeds the decode-based oracles (key packets, frame list)

    // ---- independent parse (C02, C18, C19, C20) ----
    int slot_owner[8]; for (int &x : slot_owner) x = -1; std::vector<char> nonref_reported(pk.size(), 0);
    obu::Parser P; J frames = J::arr(); std::vector<uint8_t> first_seq; int seq_copies = 0; std::vector<int> key_packets; bool seen_frame = false;
    for (size_t i = 0; i < pk.size(); i++) {
        const Packet &p = *pk[i]; char tag[64]; snprintf(tag, sizeof tag, "packet %zu (pts %lld)", i, (long long)p.pts);
        if (p.flags & 0xfffffff0u) { oracle_fail("error_packet", std::string(tag) + " carries error flags"); continue; }
        if (p.data.empty()) { oracle_fail("tu_empty", std::string(tag) + " has no payload"); continue; }
        obu::TuReport R = P.parse_tu(p.data.data(), p.data.size());
        for (auto &e : R.errors) oracle_fail("tu_syntax", std::string(tag) + ": " + e);
        if (R.obus.empty() || R.obus[0].type != 2) oracle_fail("tu_no_delimiter", std::string(tag) + " does not start with a temporal delimiter");
        int ntd = 0; for (auto &o : R.obus) if (o.type == 2) ntd++; if (ntd > 1) oracle_fail("tu_multiple_delimiters", std::string(tag) + " contains more than one temporal delimiter");
        if (R.shown_frames != 1) { char b[128]; snprintf(b, sizeof b, "%s shows %d frames", tag, R.shown_frames); oracle_fail("tu_shown_count", b); }
        if (R.obus_after_shown) oracle_fail("tu_trailing_obus", std::string(tag) + " has OBUs after its displayed frame");
        bool has_seq = !R.seq_hdr_payloads.empty();
        for (auto &sq : R.seq_hdr_payloads) { seq_copies++; if (first_seq.empty()) first_seq = sq; else if (sq != first_seq) oracle_fail("seq_header_differs", std::string(tag) + ": sequence header differs from the first one"); }
        J fl = J::arr(); bool shown_key = false; int shown_type = -1, shown_existing = 0; int any_refresh_shown = -1;
        for (auto &fr : R.frames) {
            if (!fr.complete && R.errors.empty()) oracle_fail("tu_incomplete_frame", std::string(tag) + ": frame without all of its tiles");
            if (!seen_frame && !has_seq && !seq_copies) oracle_fail("seq_header_missing", std::string(tag) + ": frame before any sequence header");
            seen_frame = true;
            if (fr.h.frame_type == 0 && !fr.h.show_existing && !has_seq) oracle_fail("seq_header_missing_at_key", std::string(tag) + ": key frame without sequence header in its temporal unit");
            J fj = frame_json(fr.h); fj.set("packet", (uint64_t)i); fj.set("ntiles", (uint64_t)fr.tile_sizes.size()); fl.push(fj);
            // which packet's frame does each reference slot hold?  a frame reported NON_REF must never be referenced later
            if (!fr.h.show_existing) {
                if (fr.h.frame_type == 1 || fr.h.frame_type == 3) for (int r = 0; r < 7; r++) { int owner = slot_owner[fr.h.ref_idx[r]];
                    if (owner >= 0 && pk[owner]->pic_type == EB_AV1_NON_REF_PICTURE && !nonref_reported[owner]) { nonref_reported[owner] = 1; char b[200]; snprintf(b, sizeof b, "packet %d (pts %lld) reports NON_REF but its frame is referenced by the frame in %s", owner, (long long)pk[owner]->pts, tag); oracle_fail("pic_type_mismatch", b); } }
                // only the *shown* frame of a packet is what the packet's pic_type describes; hidden frames packed in the same temporal unit are not
                for (int sl = 0; sl < 8; sl++) if ((fr.h.refresh_flags >> sl) & 1) slot_owner[sl] = fr.h.show_frame ? (int)i : -1;
            } else if (fr.h.frame_type == 0) { int ow = slot_owner[fr.h.frame_to_show]; for (int sl = 0; sl < 8; sl++) slot_owner[sl] = ow; }
            if (fr.h.show_existing) { shown_existing = 1; shown_type = fr.h.frame_type; if (fr.h.frame_type == 0) shown_key = true; }
            else if (fr.h.show_frame) { shown_type = fr.h.frame_type; if (fr.h.frame_type == 0) shown_key = true; any_refresh_shown = fr.h.refresh_flags; }
        }
        // reported picture type vs carried frame (C02)
        if (shown_type >= 0) {
            bool is_key_type = p.pic_type == EB_AV1_KEY_PICTURE;
            if (shown_key && !shown_existing && !is_key_type) { char b[160]; snprintf(b, sizeof b, "%s carries a shown key frame but reports pic_type %u", tag, p.pic_type); oracle_fail("pic_type_mismatch", b); }
            if (is_key_type && !(shown_key && !shown_existing)) { char b[160]; snprintf(b, sizeof b, "%s reports KEY but its shown frame is %s%s", tag, obu::frame_type_name(shown_type), shown_existing ? " (show-existing)" : ""); oracle_fail("pic_type_mismatch", b); }
            if (((p.flags & EB_BUFFERFLAG_SHOW_EXT) != 0) != (R.frames.size() > 1 && shown_existing)) {
                // SHOW_EXT documents "packet contains a show-existing frame in addition to a coded frame"; a lone show-existing header packet is reported via pic_type
            }

            if (p.pic_type == EB_AV1_INTRA_ONLY_PICTURE && !shown_existing && shown_type != 2) { char b[160]; snprintf(b, sizeof b, "%s reports INTRA_ONLY but shows %s", tag, obu::frame_type_name(shown_type)); oracle_fail("pic_type_mismatch", b); }
        }
        if (shown_key) key_packets.push_back((int)i);
        frames.push(fl);
    }
    out.set("frames", frames);
    {   J sq = J::obj(); const obu::SeqHdr &s = P.seq;
        sq.set("profile", s.profile); sq.set("max_w", s.max_w); sq.set("max_h", s.max_h); sq.set("use_128", s.use_128); sq.set("filter_intra", s.enable_filter_intra); sq.set("intra_edge", s.enable_intra_edge);
        sq.set("interintra", s.enable_interintra); sq.set("masked_compound", s.enable_masked_compound); sq.set("warped", s.enable_warped_motion); sq.set("dual_filter", s.enable_dual_filter);
        sq.set("order_hint_bits", s.order_hint_bits); sq.set("jnt_comp", s.enable_jnt_comp); sq.set("ref_frame_mvs", s.enable_ref_frame_mvs); sq.set("superres", s.enable_superres); sq.set("cdef", s.enable_cdef);
        sq.set("restoration", s.enable_restoration); sq.set("bit_depth", s.bit_depth); sq.set("mono", s.mono); sq.set("film_grain", s.film_grain_present); sq.set("force_sct", s.force_sct); sq.set("copies", seq_copies);
        sq.set("still", s.still_picture); sq.set("reduced_still", s.reduced_still); sq.set("level0", s.level_idx[0]);
        out.set("seq", sq); }
    if (I.stream_hdr_bytes.size() && first_seq.size()) {
        // the stream-header API returns the sequence header OBU (with its header and size); compare whole OBU bytes
        if (I.stream_hdr_bytes != first_seq) {
            // tolerate a leading temporal delimiter in the API buffer
            bool ok = I.stream_hdr_bytes.size() == first_seq.size() + 2 && I.stream_hdr_bytes[0] == 0x12 && I.stream_hdr_bytes[1] == 0 && !memcmp(I.stream_hdr_bytes.data() + 2, first_seq.data(), first_seq.size());
            if (!ok) { std::string a, b2; char t[4]; for (uint8_t c : I.stream_hdr_bytes) { snprintf(t, sizeof t, "%02x", c); a += t; } for (uint8_t c : first_seq) { snprintf(t, sizeof t, "%02x", c); b2 += t; }
                oracle_fail("stream_header_api_differs", "svt_av1_enc_stream_header payload " + a + " differs from the in-stream sequence header " + b2); }
        }
    }
    J kp = J::arr(); for (int k : key_packets) kp.push(k); out.set("key_packets", kp);

    // ---- block-level tool usage (C20): the SVT decoder parses the stream, the per-block hook counts the tools the syntax uses ----
    if (orc.geti("tool_usage", 0) && !sim_active()) {
        EbComponentType *dh = nullptr; EbSvtAv1DecConfiguration dc; memset(&dc, 0, sizeof dc);
        if (svt_av1_dec_init_handle(&dh, nullptr, &dc) == EB_ErrorNone && dh) {
            int W2 = (int)I.cfg->source_width, H2 = (int)I.cfg->source_height; bool hb = I.cfg->encoder_bit_depth > 8;
            dc.threads = 1; dc.num_p_frames = 1; dc.max_picture_width = W2; dc.max_picture_height = H2; dc.max_bit_depth = hb ? EB_TEN_BIT : EB_EIGHT_BIT; dc.max_color_format = EB_YUV420; dc.skip_film_grain = 1;
            if (svt_av1_dec_set_parameter(dh, &dc) == EB_ErrorNone && svt_av1_dec_init(dh) == EB_ErrorNone) {
                bool okd = true;
                for (auto *p : pk) { if (p->data.empty()) continue; if (svt_av1_dec_frame(dh, p->data.data(), p->data.size(), 0) != EB_ErrorNone) { okd = false; break; } }
                J tu; events_tool_usage(tu); tu.set("parsed_ok", okd); out.set("tool_usage", tu);
                svt_av1_dec_deinit(dh);
            }
            svt_av1_dec_deinit_handle(dh);
        }
    }

    // ---- independent decode (C01, C03, C19, C26) ----
    if (!orc.geti("decode", 1)) return;
    std::string err; std::unique_ptr<refdec::Decoder> d(refdec::open_dav1d(err));
    if (!d) { out.set("reference_decoder", "unavailable: " + err); oracle_fail("refdec_unavailable", err); return; }
    out.set("reference_decoder", d->name());
    std::vector<refdec::Picture> pics; std::vector<int> pic_packet; bool dec_ok = true;
    for (size_t i = 0; i < pk.size() && dec_ok; i++) {
        if (pk[i]->data.empty()) continue; size_t before = pics.size();
        if (!d->decode(pk[i]->data.data(), pk[i]->data.size(), pics, err)) { char b[200]; snprintf(b, sizeof b, "packet %zu: %s", i, err.c_str()); oracle_fail("decode_error", b); dec_ok = false; }
        for (size_t k = before; k < pics.size(); k++) pic_packet.push_back((int)i);
        if (dec_ok && pics.size() - before != 1) { char b[128]; snprintf(b, sizeof b, "packet %zu decoded to %zu pictures", i, pics.size() - before); oracle_fail("decode_picture_count", b); }
    }
    if (dec_ok) d->flush(pics, err);
    out.set("decoded", (uint64_t)pics.size());
    J dh = J::arr(); for (auto &p : pics) dh.push(hex64(fnv1a(fnv_init(), p.data.data(), p.data.size()))); out.set("decoded_hashes", dh);
    int W = (int)I.cfg->source_width, H = (int)I.cfg->source_height, bd = (int)I.cfg->encoder_bit_depth;
    if (dec_ok && orc.geti("recon_compare", 1) && !rc.empty()) {
        // recon matched by display position: k-th decoded picture (display order == packet order) <-> recon whose pts equals the k-th packet's pts
        for (size_t k = 0; k < pics.size() && k < pic_packet.size(); k++) {
            int64_t pts = pk[pic_packet[k]]->pts; const Recon *r = nullptr; int cnt = 0; for (auto *x : rc) if (x->pts == pts) { r = x; cnt++; }
            if (!r) { for (auto *x : rc) if (x->pts == (int64_t)pic_packet[k]) { r = x; cnt++; } } // the library may label recon buffers by display index instead of pts
            char what[96]; snprintf(what, sizeof what, "display position %zu (pts %lld)", k, (long long)pts);
            if (!r) { oracle_fail("recon_missing", std::string(what) + ": no recon delivered"); continue; }
            if (cnt > 1) oracle_fail("recon_duplicate", std::string(what) + ": more than one recon delivered");
            pic_compare(pics[k], r->data.data(), r->len, W, H, bd, what, "recon_mismatch");
        }
    }
    if (dec_ok && orc.geti("aom", 0)) {
        std::unique_ptr<refdec::Decoder> a(refdec::open_libaom(err));
        if (!a) out.set("reference_decoder2", "unavailable: " + err);
        else { out.set("reference_decoder2", a->name()); std::vector<refdec::Picture> ap; bool ok = true;
            for (size_t i = 0; i < pk.size() && ok; i++) if (!pk[i]->data.empty() && !a->decode(pk[i]->data.data(), pk[i]->data.size(), ap, err)) { oracle_fail("decode_error_aom", err); ok = false; }
            if (ok) { if (ap.size() != pics.size()) oracle_fail("refdec_disagree", "libaom and dav1d output different picture counts"); else for (size_t k = 0; k < ap.size(); k++) if (ap[k].data != pics[k].data) { char b[96]; snprintf(b, sizeof b, "picture %zu differs between dav1d and libaom", k); oracle_fail("refdec_disagree", b); break; } } }
    }
    // C26: reported SSE vs submitted picture and decoded picture (8-bit)
    if (dec_ok && orc.geti("sse", 0) && (bd == 8 || bd == 10) && I.cfg->stat_report) {   // the statement is about runs with statistics reporting enabled
        for (size_t k = 0; k < pics.size() && k < pic_packet.size(); k++) {
            const Packet &p = *pk[pic_packet[k]]; int idx = (int)p.pts; if (idx < 0 || idx >= I.content.n) continue; // submitted index: pts==index in these cases
            std::vector<uint16_t> Y, U, V; gen_frame(I.content, idx, Y, U, V); const refdec::Picture &q = pics[k]; if (q.w != W || q.h != H) continue;
            uint64_t s[3] = {0, 0, 0}; const uint8_t *dp = q.data.data(); int bps = bd > 8 ? 2 : 1;
            auto smp = [&](const uint8_t *b, size_t i) { return bps == 1 ? (int)b[i] : (int)(b[2 * i] | (b[2 * i + 1] << 8)); };
            for (size_t i = 0; i < (size_t)W * H; i++) { int df = (int)Y[i] - smp(dp, i); s[0] += (uint64_t)((int64_t)df * df); } dp += (size_t)W * H * bps;
            for (size_t i = 0; i < (size_t)(W / 2) * (H / 2); i++) { int df = (int)U[i] - smp(dp, i); s[1] += (uint64_t)((int64_t)df * df); } dp += (size_t)(W / 2) * (H / 2) * bps;
            for (size_t i = 0; i < (size_t)(W / 2) * (H / 2); i++) { int df = (int)V[i] - smp(dp, i); s[2] += (uint64_t)((int64_t)df * df); }
            const char *nm[3] = {"luma", "cb", "cr"};
            for (int c = 0; c < 3; c++) if ((uint32_t)s[c] != p.sse[c]) { char b[200]; snprintf(b, sizeof b, "packet %d (pts %lld, pic_type %u): reported %s_sse %u, computed %u", pic_packet[k], (long long)p.pts, p.pic_type, nm[c], p.sse[c], (uint32_t)s[c]); oracle_fail("sse_mismatch", b); }
        }
    }
    // C19: every shown key frame is a random access point
    if (dec_ok && orc.geti("suffix", 0)) {
        int checked = 0;
        for (int kpi : key_packets) {
            if (kpi == 0) continue;
            std::unique_ptr<refdec::Decoder> d2(refdec::open_dav1d(err)); if (!d2) break; std::vector<refdec::Picture> sp; bool ok = true;
            for (size_t i = kpi; i < pk.size() && ok; i++) if (!pk[i]->data.empty() && !d2->decode(pk[i]->data.data(), pk[i]->data.size(), sp, err)) { char b[160]; snprintf(b, sizeof b, "decode from key packet %d fails at packet %zu: %s", kpi, i, err.c_str()); oracle_fail("random_access_decode_error", b); ok = false; }
            if (!ok) continue; d2->flush(sp, err);
            // picture for packet i in the full decode
            size_t base = 0; while (base < pic_packet.size() && pic_packet[base] < kpi) base++;
            if (sp.size() != pics.size() - base) { char b[160]; snprintf(b, sizeof b, "decode from key packet %d yields %zu pictures, full decode has %zu for those positions", kpi, sp.size(), pics.size() - base); oracle_fail("random_access_count", b); continue; }
            for (size_t k = 0; k < sp.size(); k++) if (sp[k].data != pics[base + k].data) { char b[160]; snprintf(b, sizeof b, "decode from key packet %d: picture %zu differs from full decode", kpi, base + k); oracle_fail("random_access_mismatch", b); break; }
            checked++;
        }
        out.set("suffix_checked", checked);
    }
    if (g_case.has("dump")) {
        std::string pre = g_case["dump"].S(); FILE *f = fopen((pre + ".obu").c_str(), "wb"); if (f) { for (auto *p : pk) fwrite(p->data.data(), 1, p->data.size(), f); fclose(f); }
        f = fopen((pre + ".tu").c_str(), "wb"); if (f) { for (auto *p : pk) { uint32_t n = (uint32_t)p->data.size(); fwrite(&n, 4, 1, f); fwrite(p->data.data(), 1, n, f); } fclose(f); }
    }
}

static void setup_instance(Instance &I, const J &src) {
    if (src.gets("kind", "enc") == "dec") { I.is_dec = true; I.decj = src; return; }
    I.cfgj = src["cfg"]; I.program = src["program"]; I.prefill = src.gets("cfg_prefill", "zero"); I.prefill_seed = (uint64_t)src.geti("cfg_prefill_seed", 1);
    content_from_json(src["content"], I.content);
}
static void *instance_thread(void *a) { Instance *I = (Instance *)a; if (I->is_dec) dec_instance_run(I->decj, I->decout); else run_program(*I); return nullptr; }

void run_enc_world() {
    SimConfig sc; sim_config_from_case(g_case, sc);
    if (g_case["mem"].geti("census", 0)) sim_site_census(1);
    std::vector<std::unique_ptr<Instance>> inst;
    if (g_case.has("instances")) { int k = 0; for (auto &ij : g_case["instances"].a) { inst.emplace_back(new Instance()); inst.back()->id = k++; setup_instance(*inst.back(), ij); } }
    else { inst.emplace_back(new Instance()); setup_instance(*inst[0], g_case); }
    sim_start(&sc, world_fatal);
    if (inst.size() == 1 && !inst[0]->is_dec) run_program(*inst[0]);
    else {
        std::vector<pthread_t> th(inst.size());
        for (size_t i = 0; i < inst.size(); i++) pthread_create(&th[i], nullptr, instance_thread, inst[i].get());
        for (size_t i = 0; i < inst.size(); i++) pthread_join(th[i], nullptr);
    }
    // all library threads must have exited when every instance has been torn down
    bool all_down = true; for (auto &I : inst) if (I->handle_valid) all_down = false;
    const SimStats *st = sim_stats();
    J ledger = J::obj();
    ledger.set("all_torn_down", all_down); ledger.set("threads_created", st->threads_created); ledger.set("threads_exited", st->threads_exited); ledger.set("threads_joined", st->threads_joined);
    ledger.set("live_blocks", st->lib_live_blocks); ledger.set("live_bytes", st->lib_live_bytes); ledger.set("mutexes_live", (long long)st->mutexes_created - (long long)st->mutexes_destroyed);
    ledger.set("sems_live", (long long)st->sems_created - (long long)st->sems_destroyed);
    { uint64_t sites[16], seqs[16]; size_t nlive = sim_live_blocks(sites, seqs, 16); J ls = J::arr(); for (size_t i = 0; i < std::min<size_t>(nlive, 16); i++) { J e = J::arr(); e.push(hex64(sites[i])); e.push(seqs[i]); ls.push(e); } ledger.set("live_sample", ls); }
    g_result.set("ledger", ledger);
    if (all_down) { if (st->threads_exited != st->threads_created) { /* sim_stop will report */ } sim_stop(); }
    else { // cannot stop the simulator with live library threads; results are emitted from inside the simulation
    }
    J ev; events_summarize(ev); g_result.set("events", ev);
    if (g_case["mem"].geti("census", 0)) { const SimSite *s; size_t n = sim_sites(&s); J sj = J::arr(); for (size_t i = 0; i < n; i++) { J e = J::arr(); e.push(hex64(s[i].site)); e.push(s[i].count); e.push(s[i].first); e.push(s[i].last); sj.push(e); } g_result.set("sites", sj); }
    g_result.set("last_failed_site", hex64(sim_last_failed_site()));
    J ij = J::arr();
    for (auto &I : inst) {
        if (I->is_dec) { ij.push(I->decout); continue; }
        J o = J::obj(); o.set("history", I->history); o.set("sessions", I->ledger_sessions); o.set("sent", I->sent); o.set("eos_packet", I->eos_packet);
        if (I->cfg && g_case["oracles"].geti("dump_cfg", 0)) o.set("cfg_effective", cfg_dump(*I->cfg));
        instance_oracles(*I, o); ij.push(o);
    }
    if (inst.size() == 1) { for (auto &kv : ij.a[0].o) g_result.set(kv.first, kv.second); } else g_result.set("instances", ij);
}
