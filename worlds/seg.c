/* W6: real enc_dec_segments_ctor/init + assign_enc_dec_segments + SRM feedback FIFO under the
 * scheduler; k worker tasks run the kernel's segment/SB iteration (loop bounds copied from
 * mode_decision_kernel) with a recording stub as SB body.  Events go through the same checker
 * as real encodes (events.cc).  DESIGN.md §7 C24. */
#include <stdio.h>
#include <stdlib.h>
#include <string.h>
#include <stdint.h>
#include <pthread.h>
#include <semaphore.h>
#include <errno.h>
#include "EbSystemResourceManager.h"
#include "EbThreads.h"
#include "EbEncDecSegments.h"
#include "EbEncDecTasks.h"
#include "EbVerifHooks.h"
#include "bridge.h"
#include "simcore.h"

EbBool assign_enc_dec_segments(EncDecSegments *segmentPtr, uint16_t *segmentInOutIndex, EncDecTasks *taskPtr, EbFifo *srmFifoPtr);

typedef struct { uint64_t picnum; int w, h; EncDecSegments *seg; int coded; pthread_mutex_t mu; } FakePcs;
static EbSystemResource *tasks_res; static int NW, BODY_YIELDS; static sem_t pic_done; static FakePcs pcs;
static long total_sbs, total_segments;

static void *worker(void *a) {
    int wid = (int)(intptr_t)a;
    EbFifo *in = svt_system_resource_get_consumer_fifo(tasks_res, (uint32_t)wid);
    EbFifo *fb = svt_system_resource_get_producer_fifo(tasks_res, (uint32_t)(1 + wid));
    uint16_t segment_index = 0;
    for (;;) {
        EbObjectWrapper *tw = NULL; EbErrorType e = svt_get_full_object(in, &tw);
        if (e == EB_NoErrorFifoShutdown || !tw) break;
        EncDecTasks *task = (EncDecTasks *)tw->object_ptr; FakePcs *p = (FakePcs *)task->pcs_wrapper_ptr; EncDecSegments *segments_ptr = p->seg;
        uint16_t tile_group_width_in_sb = (uint16_t)p->w; int coded = 0;
        while (assign_enc_dec_segments(segments_ptr, &segment_index, task, fb) == EB_TRUE) {
            uint32_t x_sb_start_index = segments_ptr->x_start_array[segment_index];
            uint32_t y_sb_start_index = segments_ptr->y_start_array[segment_index];
            uint32_t sb_start_index = y_sb_start_index * tile_group_width_in_sb + x_sb_start_index;
            uint32_t sb_segment_count = segments_ptr->valid_sb_count_array[segment_index];
            uint32_t segment_row_index = segment_index / segments_ptr->segment_band_count;
            uint32_t segment_band_index = segment_index - segment_row_index * segments_ptr->segment_band_count;
            uint32_t segment_band_size = (segments_ptr->sb_band_count * (segment_band_index + 1) + segments_ptr->segment_band_count - 1) / segments_ptr->segment_band_count;
            uint32_t y_sb_index, x_sb_index, sb_segment_index;
            total_segments++;
            svt_verif_event(SVT_VERIF_EV_SEG_PIC, (uint64_t)(uintptr_t)p, 0 | (p->picnum << 16), ((uint64_t)tile_group_width_in_sb << 16) | segments_ptr->sb_row_count, ((uint64_t)segments_ptr->segment_band_count << 16) | segments_ptr->segment_row_count);
            svt_verif_event(SVT_VERIF_EV_SEG_ASSIGN, (uint64_t)(uintptr_t)p, 0 | (p->picnum << 16), segment_index, 0);
            for (y_sb_index = y_sb_start_index, sb_segment_index = sb_start_index; sb_segment_index < sb_start_index + sb_segment_count; ++y_sb_index) {
                for (x_sb_index = x_sb_start_index; x_sb_index < tile_group_width_in_sb && (x_sb_index + y_sb_index < segment_band_size) && sb_segment_index < sb_start_index + sb_segment_count; ++x_sb_index, ++sb_segment_index) {
                    svt_verif_event(SVT_VERIF_EV_SEG_SB_START, (uint64_t)(uintptr_t)p, 0 | (p->picnum << 16), segment_index, ((uint64_t)x_sb_index << 16) | y_sb_index);
                    for (int y = 0; y < BODY_YIELDS; y++) sim_yield();
                    svt_verif_event(SVT_VERIF_EV_SEG_SB_END, (uint64_t)(uintptr_t)p, 0 | (p->picnum << 16), segment_index, ((uint64_t)x_sb_index << 16) | y_sb_index);
                    coded++;
                }
                x_sb_start_index = (x_sb_start_index > 0) ? x_sb_start_index - 1 : 0;
            }
        }
        pthread_mutex_lock(&p->mu); p->coded += coded; total_sbs += coded; int last = (p->coded == p->w * p->h); pthread_mutex_unlock(&p->mu);
        svt_release_object(tw);
        if (last) sem_post(&pic_done);
    }
    return NULL;
}

static EbErrorType build(EncDecSegments **segp, int ntask, int sr, int maxc, int maxr) {
    EncDecTasksInitData init; init.enc_dec_segment_row_count = (unsigned)sr;
    EB_NEW(tasks_res, svt_system_resource_ctor, (uint32_t)ntask, (uint32_t)(1 + NW), (uint32_t)NW, enc_dec_tasks_creator, &init, NULL);
    EncDecSegments *seg; EB_NEW(seg, enc_dec_segments_ctor, (uint32_t)maxc, (uint32_t)maxr); *segp = seg;
    return EB_ErrorNone;
}
void seg_world_main(void) {
    int W = (int)c_case_int("seg.w", 5), H = (int)c_case_int("seg.h", 4), SC = (int)c_case_int("seg.cols", 3), SR = (int)c_case_int("seg.rows", 2), NPIC = (int)c_case_int("seg.pictures", 2);
    NW = (int)c_case_int("seg.workers", 3); BODY_YIELDS = (int)c_case_int("seg.body_yields", 1); int NTASK = (int)c_case_int("seg.tasks", NW + SR + 2);
    int MAXC = (int)c_case_int("seg.max_cols", SC), MAXR = (int)c_case_int("seg.max_rows", SR);
    if (NW > 16) NW = 16;
    c_sim_start();
    sim_api_enter();
    EncDecSegments *seg = NULL;
    if (build(&seg, NTASK, SR, MAXC, MAXR) != EB_ErrorNone) { c_oracle_fail("harness", "construction failed"); return; }
    sim_api_exit();
    sem_init(&pic_done, 0, 0); pthread_mutex_init(&pcs.mu, NULL);
    pthread_t wt[16]; for (int i = 0; i < NW; i++) pthread_create(&wt[i], NULL, worker, (void *)(intptr_t)i);
    EbFifo *mdc = svt_system_resource_get_producer_fifo(tasks_res, 0);
    for (int n = 0; n < NPIC; n++) {
        /* sizes may vary per picture (seeded by the case): alternate the orientation to re-initialise the grid */
        int w = (n & 1) ? (int)c_case_int("seg.w2", W) : W, h = (n & 1) ? (int)c_case_int("seg.h2", H) : H;
        sim_api_enter(); enc_dec_segments_init(seg, (uint32_t)SC, (uint32_t)SR, (uint32_t)w, (uint32_t)h); sim_api_exit();
        pcs.picnum = (uint64_t)n; pcs.w = w; pcs.h = h; pcs.seg = seg; pcs.coded = 0;
        EbObjectWrapper *tw; svt_get_empty_object(mdc, &tw); EncDecTasks *t = (EncDecTasks *)tw->object_ptr;
        t->pcs_wrapper_ptr = (EbObjectWrapper *)&pcs; t->input_type = ENCDEC_TASKS_MDC_INPUT; t->tile_group_index = 0; t->enc_dec_segment_row = 0;
        svt_post_full_object(tw);
        while (sem_wait(&pic_done) == -1 && errno == EINTR) {}
        if (pcs.coded != w * h) { char d[128]; snprintf(d, sizeof d, "picture %d: %d of %d SBs coded", n, pcs.coded, w * h); c_oracle_fail("seg_incomplete", d); }
    }
    svt_shutdown_process(tasks_res);
    for (int i = 0; i < NW; i++) pthread_join(wt[i], NULL);
    sim_api_enter(); EB_DELETE(seg); EB_DELETE(tasks_res); sim_api_exit();
    c_result_int("sbs", total_sbs); c_result_int("segments", total_segments);
    c_events_summary();
    sim_stop();
}
