// Minimal JSON value / parser / writer (harness-internal).
#pragma once
#include <cstdint>
#include <cstdio>
#include <cstdlib>
#include <cstring>
#include <map>
#include <string>
#include <vector>

struct J {
    enum T { NUL, BOOL, NUM, STR, ARR, OBJ } t = NUL;
    bool b = false; double n = 0; int64_t i = 0; bool is_int = false; std::string s; std::vector<J> a; std::vector<std::pair<std::string, J>> o;
    J() {}
    J(bool v) : t(BOOL), b(v) {}
    J(int v) : t(NUM), n(v), i(v), is_int(true) {}
    J(long v) : t(NUM), n((double)v), i(v), is_int(true) {}
    J(long long v) : t(NUM), n((double)v), i(v), is_int(true) {}
    J(unsigned v) : t(NUM), n(v), i(v), is_int(true) {}
    J(unsigned long v) : t(NUM), n((double)v), i((int64_t)v), is_int(true) {}
    J(unsigned long long v) : t(NUM), n((double)v), i((int64_t)v), is_int(true) {}
    J(double v) : t(NUM), n(v), i((int64_t)v), is_int(false) {}
    J(const char *v) : t(STR), s(v) {}
    J(const std::string &v) : t(STR), s(v) {}
    static J arr() { J j; j.t = ARR; return j; }
    static J obj() { J j; j.t = OBJ; return j; }
    bool has(const char *k) const { for (auto &p : o) if (p.first == k) return true; return false; }
    const J &operator[](const char *k) const { static J nul; for (auto &p : o) if (p.first == k) return p.second; return nul; }
    J &set(const std::string &k, const J &v) { for (auto &p : o) if (p.first == k) { p.second = v; return p.second; } t = OBJ; o.emplace_back(k, v); return o.back().second; }
    J &push(const J &v) { t = ARR; a.push_back(v); return a.back(); }
    int64_t I(int64_t d = 0) const { return t == NUM ? (is_int ? i : (int64_t)n) : t == BOOL ? b : d; }
    uint64_t U(uint64_t d = 0) const { return t == NUM ? (is_int ? (uint64_t)i : (uint64_t)n) : d; }
    double D(double d = 0) const { return t == NUM ? n : d; }
    std::string S(const std::string &d = "") const { return t == STR ? s : d; }
    int64_t geti(const char *k, int64_t d) const { return has(k) ? (*this)[k].I(d) : d; }
    std::string gets(const char *k, const std::string &d) const { return has(k) ? (*this)[k].S(d) : d; }

    void dump(std::string &out) const {
        char buf[64];
        switch (t) {
        case NUL: out += "null"; break;
        case BOOL: out += b ? "true" : "false"; break;
        case NUM: if (is_int) snprintf(buf, sizeof buf, "%lld", (long long)i); else snprintf(buf, sizeof buf, "%.17g", n); out += buf; break;
        case STR: esc(out, s); break;
        case ARR: out += '['; for (size_t k = 0; k < a.size(); k++) { if (k) out += ','; a[k].dump(out); } out += ']'; break;
        case OBJ: out += '{'; for (size_t k = 0; k < o.size(); k++) { if (k) out += ','; esc(out, o[k].first); out += ':'; o[k].second.dump(out); } out += '}'; break;
        }
    }
    std::string str() const { std::string s2; dump(s2); return s2; }
    static void esc(std::string &out, const std::string &v) {
        out += '"';
        for (unsigned char c : v) { if (c == '"' || c == '\\') { out += '\\'; out += (char)c; } else if (c == '\n') out += "\\n"; else if (c == '\t') out += "\\t"; else if (c < 0x20) { char b2[8]; snprintf(b2, sizeof b2, "\\u%04x", c); out += b2; } else out += (char)c; }
        out += '"';
    }
    // parser
    static J parse(const std::string &txt, bool *ok = nullptr) { const char *p = txt.c_str(); J j; bool good = pv(p, j); ws(p); if (*p) good = false; if (ok) *ok = good; return j; }
private:
    static void ws(const char *&p) { while (*p == ' ' || *p == '\n' || *p == '\t' || *p == '\r') p++; }
    static bool pv(const char *&p, J &j) {
        ws(p);
        if (*p == '{') { p++; j.t = OBJ; ws(p); if (*p == '}') { p++; return true; }
            for (;;) { ws(p); J k; if (*p != '"' || !pv(p, k)) return false; ws(p); if (*p != ':') return false; p++; J v; if (!pv(p, v)) return false; j.o.emplace_back(k.s, v); ws(p); if (*p == ',') { p++; continue; } if (*p == '}') { p++; return true; } return false; } }
        if (*p == '[') { p++; j.t = ARR; ws(p); if (*p == ']') { p++; return true; }
            for (;;) { J v; if (!pv(p, v)) return false; j.a.push_back(v); ws(p); if (*p == ',') { p++; continue; } if (*p == ']') { p++; return true; } return false; } }
        if (*p == '"') { p++; j.t = STR; while (*p && *p != '"') { if (*p == '\\') { p++; switch (*p) { case 'n': j.s += '\n'; break; case 't': j.s += '\t'; break; case 'r': j.s += '\r'; break; case 'b': j.s += '\b'; break; case 'f': j.s += '\f'; break;
                        case 'u': { unsigned c = 0; for (int k = 0; k < 4 && p[1]; k++) { p++; c = c * 16 + (unsigned)(strchr("0123456789abcdef", *p | 0x20) ? strchr("0123456789abcdef", *p | 0x20) - "0123456789abcdef" : 0); } if (c < 0x80) j.s += (char)c; else j.s += '?'; } break;
                        default: j.s += *p; } p++; } else j.s += *p++; } if (*p != '"') return false; p++; return true; }
        if (!strncmp(p, "true", 4)) { p += 4; j.t = BOOL; j.b = true; return true; }
        if (!strncmp(p, "false", 5)) { p += 5; j.t = BOOL; j.b = false; return true; }
        if (!strncmp(p, "null", 4)) { p += 4; j.t = NUL; return true; }
        if (*p == '-' || (*p >= '0' && *p <= '9')) { const char *s0 = p; bool isint = true; if (*p == '-') p++; while ((*p >= '0' && *p <= '9') || *p == '.' || *p == 'e' || *p == 'E' || *p == '+' || *p == '-') { if (*p == '.' || *p == 'e' || *p == 'E') isint = false; p++; }
            j.t = NUM; std::string num(s0, p); if (isint) { if (num[0] == '-') j.i = strtoll(num.c_str(), nullptr, 10); else j.i = (int64_t)strtoull(num.c_str(), nullptr, 10); j.n = (double)j.i; j.is_int = true; } else { j.n = strtod(num.c_str(), nullptr); j.i = (int64_t)j.n; } return true; }
        return false;
    }
};
