// Seeded picture content recipes (explicit in the case; DESIGN.md §5).
#pragma once
#include "common.h"
#include <vector>
#include <string>
#include <cmath>

struct Content {
    std::string kind = "mix"; uint64_t seed = 1; int w = 64, h = 64, bd = 8, n = 10; int cut = -1; int val = 128;
    int hold = 0, is_static = 0;   // hold k: every source picture is repeated k times; static: every picture equals picture 0
    int stride_pad = 0, stride_pad_c = 0, stride_pad_cr = 0, extra_rows = 0, pad_garbage = 0, scribble = 0, reuse_buffer = 0; uint64_t garbage_seed = 1;
};
inline void content_from_json(const J &j, Content &c) {
    c.kind = j.gets("kind", "mix"); c.seed = (uint64_t)j.geti("seed", 1); c.w = (int)j.geti("w", 64); c.h = (int)j.geti("h", 64); c.bd = (int)j.geti("bd", 8); c.n = (int)j.geti("n", 10);
    c.cut = (int)j.geti("cut", -1); c.val = (int)j.geti("val", 128); c.stride_pad = (int)j.geti("stride_pad", 0); c.stride_pad_c = (int)j.geti("stride_pad_c", c.stride_pad / 2);
    c.stride_pad_cr = (int)j.geti("stride_pad_cr", c.stride_pad_c);   // the three planes have independent pitches
    c.extra_rows = (int)j.geti("extra_rows", 0); c.pad_garbage = (int)j.geti("pad_garbage", 0); c.scribble = (int)j.geti("scribble", 0); c.reuse_buffer = (int)j.geti("reuse_buffer", 0);
    c.garbage_seed = (uint64_t)j.geti("garbage_seed", 1); c.hold = (int)j.geti("hold", 0); c.is_static = (int)j.geti("static", 0);
}
// Deterministic frame i of the recipe; samples in [0, 2^bd).
inline void gen_frame(const Content &c, int i, std::vector<uint16_t> &Y, std::vector<uint16_t> &U, std::vector<uint16_t> &V) {
    int W = c.w, H = c.h, cw = W / 2, ch = H / 2; int mx = (1 << c.bd) - 1; int sh = c.bd - 8;
    if (c.hold > 1) i -= i % c.hold; if (c.is_static) i = 0;
    Y.assign((size_t)W * H, 0); U.assign((size_t)cw * ch, 0); V.assign((size_t)cw * ch, 0);
    uint64_t seed = c.seed; if (c.cut >= 0 && i >= c.cut) seed = seed * 31 + 17;
    Rng r(seed * 1000003ULL + (uint64_t)i);
    auto clampv = [&](int v) { return (uint16_t)(v < 0 ? 0 : v > mx ? mx : v); };
    const std::string &k = c.kind;
    if (k == "noise") { for (auto &v : Y) v = (uint16_t)(r.next() & mx); for (auto &v : U) v = (uint16_t)(r.next() & mx); for (auto &v : V) v = (uint16_t)(r.next() & mx); }
    else if (k == "flat") { for (auto &v : Y) v = clampv(c.val << sh); for (auto &v : U) v = clampv(128 << sh); for (auto &v : V) v = clampv(128 << sh); }
    else if (k == "zero") { }
    else if (k == "max") { for (auto &v : Y) v = (uint16_t)mx; for (auto &v : U) v = (uint16_t)mx; for (auto &v : V) v = (uint16_t)mx; }
    else if (k == "checker") { for (int y = 0; y < H; y++) for (int x = 0; x < W; x++) Y[(size_t)y * W + x] = ((x ^ y ^ i) & 1) ? mx : 0; for (int y = 0; y < ch; y++) for (int x = 0; x < cw; x++) { U[(size_t)y * cw + x] = ((x ^ y) & 1) ? mx : 0; V[(size_t)y * cw + x] = ((x ^ y) & 1) ? 0 : mx; } }
    else if (k == "hgrad" || k == "vgrad" || k == "dgrad") {
        for (int y = 0; y < H; y++) for (int x = 0; x < W; x++) { int t = k == "hgrad" ? x * 255 / (W - 1) : k == "vgrad" ? y * 255 / (H - 1) : (x + y) * 255 / (W + H - 2); Y[(size_t)y * W + x] = clampv(((t + i * 2) & 255) << sh | (int)(r.next() & (sh ? 3 : 1))); }
        for (int y = 0; y < ch; y++) for (int x = 0; x < cw; x++) { U[(size_t)y * cw + x] = clampv((x * 255 / (cw > 1 ? cw - 1 : 1)) << sh); V[(size_t)y * cw + x] = clampv((y * 255 / (ch > 1 ? ch - 1 : 1)) << sh); }
    }
    else if (k == "moving") { // textured background panning + rectangles moving, forces inter tools / global motion
        Rng t(seed * 77 + 5); std::vector<uint8_t> tex(256 * 256); for (auto &v : tex) v = (uint8_t)(t.next() & 63);
        int dx = i * 3, dy = i * 2;
        for (int y = 0; y < H; y++) for (int x = 0; x < W; x++) { int bx = (x + dx) & 255, by = (y + dy) & 255; int v = 64 + tex[by * 256 + bx] + ((bx >> 4) & 1) * 40 + ((by >> 4) & 1) * 30; Y[(size_t)y * W + x] = clampv(v << sh); }
        for (int q = 0; q < 3; q++) { int rx = (int)((seed * 13 + q * 37 + i * (4 + q * 3)) % (uint64_t)(W > 16 ? W - 16 : 1)), ry = (int)((seed * 7 + q * 53 + i * (2 + q)) % (uint64_t)(H > 16 ? H - 16 : 1)); for (int y = ry; y < ry + 16 && y < H; y++) for (int x = rx; x < rx + 16 && x < W; x++) Y[(size_t)y * W + x] = clampv((200 - q * 60) << sh); }
        for (int y = 0; y < ch; y++) for (int x = 0; x < cw; x++) { U[(size_t)y * cw + x] = clampv((100 + (((x + dx / 2) >> 3) & 1) * 50) << sh); V[(size_t)y * cw + x] = clampv((150 - (((y + dy / 2) >> 3) & 1) * 50) << sh); }
    }
    else if (k == "text") { // two/three-colour block text: palette / intrabc friendly (repeating glyphs)
        Rng t(seed * 91 + 3); uint8_t glyph[8][8][8]; for (auto &g : glyph) for (auto &row : g) for (auto &p : row) p = (uint8_t)(t.next() & 1);
        int scroll = (i / 2) * 8;
        for (int y = 0; y < H; y++) for (int x = 0; x < W; x++) { int gy = (y + scroll) >> 3, gx = x >> 3; int gi = (gx * 7 + gy * 3 + (int)seed) & 7; int on = glyph[gi][(y + scroll) & 7][x & 7]; Y[(size_t)y * W + x] = clampv((on ? 235 : 16) << sh); }
        for (int y = 0; y < ch; y++) for (int x = 0; x < cw; x++) { int gy = ((2 * y + scroll) >> 3); U[(size_t)y * cw + x] = clampv(((gy & 1) ? 90 : 160) << sh); V[(size_t)y * cw + x] = clampv(128 << sh); }
    }
    else if (k == "text_flash") { // static two-colour text with flat rectangles that appear and disappear from picture to picture (pop-ups, cursors, flashing regions)
        Rng t(seed * 91 + 3); uint8_t glyph[8][8][8]; for (auto &g : glyph) for (auto &row : g) for (auto &p : row) p = (uint8_t)(t.next() & 1);
        for (int y = 0; y < H; y++) for (int x = 0; x < W; x++) { int gy = y >> 3, gx = x >> 3; int gi = (gx * 7 + gy * 3 + (int)seed) & 7; int on = glyph[gi][y & 7][x & 7]; Y[(size_t)y * W + x] = clampv((on ? 235 : 16) << sh); }
        for (int y = 0; y < ch; y++) for (int x = 0; x < cw; x++) { U[(size_t)y * cw + x] = clampv(128 << sh); V[(size_t)y * cw + x] = clampv(128 << sh); }
        for (int q = 0; q < 6; q++) { Rng b(seed * 131 + (uint64_t)q * 17 + (uint64_t)(i / (1 + q % 3)) * 7919); if (b.next() & 1) continue;   // each rectangle has its own on/off rhythm
            int rw = 16 + 8 * (int)(b.next() % 5), rh = 16 + 8 * (int)(b.next() % 4); int rx = (int)(b.next() % (uint64_t)(W > rw ? W - rw : 1)) & ~7, ry = (int)(b.next() % (uint64_t)(H > rh ? H - rh : 1)) & ~7; int lum = 40 + 30 * q, cu = 90 + 12 * q, cv = 170 - 10 * q;
            for (int y = ry; y < ry + rh && y < H; y++) for (int x = rx; x < rx + rw && x < W; x++) Y[(size_t)y * W + x] = clampv(lum << sh);
            for (int y = ry / 2; y < (ry + rh) / 2 && y < ch; y++) for (int x = rx / 2; x < (rx + rw) / 2 && x < cw; x++) { U[(size_t)y * cw + x] = clampv(cu << sh); V[(size_t)y * cw + x] = clampv(cv << sh); } }
    }
    else if (k == "text_cfl") { // screen content with few colours whose chroma is an affine function of luma: palette and chroma-from-luma both attractive
        Rng t(seed * 57 + 9); uint8_t glyph[8][8][8]; for (auto &g : glyph) for (auto &row : g) for (auto &p : row) p = (uint8_t)(t.next() & 3);
        static const int lv[4] = {32, 96, 160, 224}; int scroll = (i / 2) * 8;
        auto lum = [&](int x, int y) { int gy = (y + scroll) >> 3, gx = x >> 3; int gi = (gx * 5 + gy * 3 + (int)seed) & 7; return lv[glyph[gi][(y + scroll) & 7][x & 7]]; };
        for (int y = 0; y < H; y++) for (int x = 0; x < W; x++) Y[(size_t)y * W + x] = clampv(lum(x, y) << sh);
        for (int y = 0; y < ch; y++) for (int x = 0; x < cw; x++) { int l = lum(2 * x, 2 * y); U[(size_t)y * cw + x] = clampv((64 + l / 2) << sh); V[(size_t)y * cw + x] = clampv((220 - l * 2 / 3) << sh); }
    }
    else if (k == "rails") { // noise, then flat, then noise: drives rate control to its rails
        int phase = (i / 4) % 3;
        if (phase == 1) { for (auto &v : Y) v = clampv(c.val << sh); for (auto &v : U) v = clampv(128 << sh); for (auto &v : V) v = clampv(128 << sh); }
        else { for (auto &v : Y) v = (uint16_t)(r.next() & mx); for (auto &v : U) v = (uint16_t)(r.next() & mx); for (auto &v : V) v = (uint16_t)(r.next() & mx); }
    }
    else if (k == "pan") { // noise-free smooth ramp panning slowly with a little brightness flicker: temporal filters and noise estimators see "clean" content
        int fl = (i % 3) - 1;
        for (int y = 0; y < H; y++) for (int x = 0; x < W; x++) Y[(size_t)y * W + x] = clampv((40 + ((x + i) * 2 + y) % 160 + fl) << sh);
        for (int y = 0; y < ch; y++) for (int x = 0; x < cw; x++) { U[(size_t)y * cw + x] = clampv((100 + (x + i / 2) % 60) << sh); V[(size_t)y * cw + x] = clampv((140 - y % 50) << sh); }
    }
    else if (k == "grainy") { // smooth, slowly varying picture + fine noise: what film-grain estimation needs (flat blocks with a measurable noise level)
        auto nz = [&]() { int a = (int)(r.next() & 15), b = (int)(r.next() & 15); return a + b - 15; };   // triangular, about +-15
        for (int y = 0; y < H; y++) for (int x = 0; x < W; x++) Y[(size_t)y * W + x] = clampv(((90 + (x + 2 * i) / 8 + y / 16) + nz() * c.val / 128) << sh);
        for (int y = 0; y < ch; y++) for (int x = 0; x < cw; x++) { U[(size_t)y * cw + x] = clampv((110 + y / 8 + nz() * c.val / 256) << sh); V[(size_t)y * cw + x] = clampv((140 - x / 8 + nz() * c.val / 256) << sh); }
    }
    else { // "mix": gradient + motion + mild noise (the prototype's content)
        for (int y = 0; y < H; y++) for (int x = 0; x < W; x++) Y[(size_t)y * W + x] = clampv((((x * 3 + i * 5 + y) & 255) + (int)(r.next() & 31)) << sh & mx);
        for (int y = 0; y < ch; y++) for (int x = 0; x < cw; x++) { U[(size_t)y * cw + x] = clampv((((x * 5 + i * 3) & 127) + 64) << sh); V[(size_t)y * cw + x] = clampv((((y * 5 + i * 7) & 127) + 64 + (int)(r.next() & 7)) << sh); }
    }
}
