// Online invariant checkers over the library's verification events (DESIGN.md §7 C23, C24).
#include "common.h"
#include <map>
#include <deque>
#include <unordered_map>
#include <cstdarg>
#include <cstdio>

namespace {
enum { EV_POST = 1, EV_ASSIGN, EV_GET_FULL, EV_GET_EMPTY, EV_RELEASE, EV_INC_LIVE, EV_SHUTDOWN, EV_NEW, EV_FIFO, EV_WRAPPER,
       EV_SB_START = 20, EV_SB_END, EV_SEG_ASSIGN, EV_SEG_PIC, EV_SEG_RESET };
enum WState { W_EMPTY, W_EMPTY_ASSIGNED, W_HELD, W_FULL, W_FULL_ASSIGNED, W_DELIVERED };
const char *wname[] = {"empty-pool", "empty-assigned", "held", "full-queued", "full-assigned", "delivered"};

struct Wrap { int res; int idx; int state = W_EMPTY; uint64_t fifo = 0; long live = 0; };
struct Res { int id; int nobj; uint64_t eq, fq; std::deque<uint64_t> posted; uint64_t posts = 0, delivers = 0, releases = 0, returns = 0; int nconsumers = 0; bool alive = true; };
struct Fifo { uint64_t queue; int idx; std::deque<uint64_t> pending; bool quit = false; };

std::unordered_map<uint64_t, Wrap> wraps;      // by wrapper address
std::unordered_map<uint64_t, int> res_of_ptr;  // resource address -> index in ress
std::vector<Res> ress;
std::unordered_map<uint64_t, int> res_of_queue; // queue address -> res index (filled at NEW)
std::unordered_map<uint64_t, Fifo> fifos;
uint64_t n_events, n_srm, n_seg, post_sig = 1469598103934665603ULL, release_of_pooled, release_hold, nb_empty, nb_found, shutdown_returns;
uint64_t max_full_occupancy;
bool seg_enabled = true, srm_enabled = true;

void bad(const char *name, const char *fmt, ...) __attribute__((format(printf, 2, 3)));
void bad(const char *name, const char *fmt, ...) { char b[512]; va_list ap; va_start(ap, fmt); vsnprintf(b, sizeof b, fmt, ap); va_end(ap); char c[600]; snprintf(c, sizeof c, "%s (decision %llu)", b, (unsigned long long)sim_decision()); oracle_fail(name, c); }

Wrap *W(uint64_t w, const char *what) { auto it = wraps.find(w); if (it == wraps.end()) { bad("srm_unknown_object", "%s on unknown wrapper", what); return nullptr; } return &it->second; }

void srm_event(int kind, uint64_t a, uint64_t b, uint64_t c, uint64_t d) {
    n_srm++;
    switch (kind) {
    case EV_FIFO: { Fifo f; f.queue = a; f.idx = (int)c; fifos[b] = f; } break;
    case EV_NEW: {
        Res r; r.id = (int)ress.size(); r.nobj = (int)b; r.eq = c; r.fq = d; ress.push_back(r); res_of_ptr[a] = r.id; res_of_queue[c] = r.id; if (d) res_of_queue[d] = r.id;
        for (auto &f : fifos) if (d && f.second.queue == d) ress.back().nconsumers++;
        // stale wrappers at a recycled address belong to a destroyed resource
    } break;
    case EV_WRAPPER: { Wrap w; w.res = res_of_ptr[a]; w.idx = (int)c; w.state = W_EMPTY; wraps[b] = w; } break;
    case EV_POST: {
        Wrap *w = W(b, "post"); if (!w) break; Res &r = ress[w->res];
        if (w->state != W_HELD && w->state != W_DELIVERED) bad("srm_post_not_held", "res %d obj %d posted while %s", r.id, w->idx, wname[w->state]);
        w->state = W_FULL; r.posted.push_back(b); r.posts++; if (r.posted.size() > max_full_occupancy) max_full_occupancy = r.posted.size();
        post_sig = (post_sig ^ ((uint64_t)r.id * 131 + (uint64_t)w->idx + 7)) * 1099511628211ULL;
    } break;
    case EV_ASSIGN: {
        Wrap *w = W(b, "assign"); if (!w) break; Res &r = ress[w->res];
        auto fi = fifos.find(a); if (fi == fifos.end()) { bad("srm_unknown_fifo", "assign to unknown fifo"); break; }
        bool full = (c == r.fq && r.fq);
        if (full) {
            if (w->state != W_FULL) bad("srm_assign_state", "res %d obj %d assigned to a consumer while %s", r.id, w->idx, wname[w->state]);
            if (r.posted.empty() || r.posted.front() != b) bad("srm_order", "res %d: object %d assigned out of posting order", r.id, w->idx);
            if (!r.posted.empty()) { if (r.posted.front() == b) r.posted.pop_front(); else { for (auto it = r.posted.begin(); it != r.posted.end(); ++it) if (*it == b) { r.posted.erase(it); break; } } }
            w->state = W_FULL_ASSIGNED;
        } else {
            if (w->state != W_EMPTY) bad("srm_double_handout", "res %d obj %d assigned to a producer while %s", r.id, w->idx, wname[w->state]);
            w->state = W_EMPTY_ASSIGNED;
        }
        w->fifo = a; fi->second.pending.push_back(b);
    } break;
    case EV_GET_EMPTY: {
        Wrap *w = W(b, "get_empty"); if (!w) break; Res &r = ress[w->res]; auto fi = fifos.find(a);
        if (w->state != W_EMPTY_ASSIGNED || w->fifo != a) bad("srm_double_handout", "res %d obj %d handed out by get_empty while %s", r.id, w->idx, wname[w->state]);
        if (fi != fifos.end()) { if (fi->second.pending.empty() || fi->second.pending.front() != b) bad("srm_fifo_order", "res %d: get_empty returned obj %d, not the head of its fifo", r.id, w->idx); if (!fi->second.pending.empty()) fi->second.pending.pop_front(); }
        w->state = W_HELD; w->live = 0;
    } break;
    case EV_GET_FULL: {
        if (!b) { if (!c) nb_empty++; else shutdown_returns++; break; }
        Wrap *w = W(b, "get_full"); if (!w) break; Res &r = ress[w->res]; auto fi = fifos.find(a);
        if (w->state != W_FULL_ASSIGNED || w->fifo != a) bad("srm_double_delivery", "res %d obj %d delivered while %s", r.id, w->idx, wname[w->state]);
        if (fi != fifos.end()) { if (fi->second.pending.empty() || fi->second.pending.front() != b) bad("srm_fifo_order", "res %d: get_full returned obj %d, not the head of its fifo", r.id, w->idx); if (!fi->second.pending.empty()) fi->second.pending.pop_front(); }
        w->state = W_DELIVERED; r.delivers++; nb_found++;
    } break;
    case EV_INC_LIVE: {
        Wrap *w = W(b, "inc_live_count"); if (!w) break; Res &r = ress[w->res];
        if (w->state == W_EMPTY || w->state == W_EMPTY_ASSIGNED) bad("srm_inc_live_pooled", "res %d obj %d: live count raised while %s", r.id, w->idx, wname[w->state]);
        w->live = (long)c;
    } break;
    case EV_RELEASE: {
        Wrap *w = W(b, "release"); if (!w) break; Res &r = ress[w->res]; r.releases++;
        if (w->state == W_EMPTY || w->state == W_EMPTY_ASSIGNED) { if (d) bad("srm_duplicate", "res %d obj %d returned to the pool twice", r.id, w->idx); else release_of_pooled++; break; }
        long before = w->live; long after = before > 0 ? before - 1 : 0;
        if (d) {
            if (after != 0) bad("srm_early_return", "res %d obj %d returned to pool with %ld references left", r.id, w->idx, after);
            if (w->state == W_FULL || w->state == W_FULL_ASSIGNED) bad("srm_return_while_queued", "res %d obj %d returned to pool while %s", r.id, w->idx, wname[w->state]);
            w->state = W_EMPTY; w->live = 0; r.returns++;
        } else { if (after == 0) release_hold++; w->live = after; if ((long)c != after) bad("srm_live_count", "res %d obj %d live count %ld, model %ld", r.id, w->idx, (long)c, after); }
    } break;
    case EV_SHUTDOWN: { auto fi = fifos.find(a); if (fi != fifos.end()) fi->second.quit = true; } break;
    }
}

// ---- segments -------------------------------------------------------------------------------
struct Pic { uint64_t picnum; int w = 0, h = 0, segc = 0, segr = 0; std::vector<uint8_t> st; int started = 0, ended = 0; uint64_t passes = 0; };
std::map<std::pair<uint64_t, int>, Pic> pics;
uint64_t seg_pics_completed, seg_sbs, seg_assigns, seg_resets, seg_max_parallel, seg_multi_seg_pics;
void seg_event(int kind, uint64_t a, uint64_t b, uint64_t c, uint64_t d) {
    n_seg++;
    int tg = (int)(b & 0xffff); uint64_t picnum = b >> 16;
    if (kind == EV_SEG_RESET) {
        seg_resets++;
        for (auto it = pics.begin(); it != pics.end();) { if (it->first.first == a) { if (it->second.ended != it->second.w * it->second.h) bad("seg_reset_incomplete", "picture %llu re-encoded before all SBs finished", (unsigned long long)b); it = pics.erase(it); } else ++it; }
        return;
    }
    auto key = std::make_pair(a, tg);
    Pic &p = pics[key];
    if (kind == EV_SEG_PIC) {
        int w = (int)(c >> 16), h = (int)(c & 0xffff);
        // pcs reused for a new picture; an overlay picture carries the picture number of its alt-ref, so a segment assignment that
        // arrives after the previous picture on this pcs completed also starts a new picture (a re-encode announces itself by SEG_RESET)
        if (p.w && (p.picnum != picnum || p.ended == p.w * p.h)) {
            if (p.ended != p.w * p.h) bad("seg_incomplete", "picture %llu tile group %d: %d of %d SBs coded when its PCS was reused", (unsigned long long)p.picnum, tg, p.ended, p.w * p.h);
            p = Pic();
        }
        if (!p.w) { p.picnum = picnum; p.w = w; p.h = h; p.segc = (int)(d >> 16); p.segr = (int)(d & 0xffff); p.st.assign((size_t)w * h, 0); if (p.segc * p.segr > 1) seg_multi_seg_pics++; }
        return;
    }
    if (kind == EV_SEG_ASSIGN) { seg_assigns++; return; }
    if (!p.w) { bad("seg_no_geometry", "SB event without picture geometry"); return; }
    int x = (int)(d >> 16), y = (int)(d & 0xffff);
    if (x >= p.w || y >= p.h) { bad("seg_out_of_range", "picture %llu: SB (%d,%d) outside %dx%d", (unsigned long long)picnum, x, y, p.w, p.h); return; }
    uint8_t &s = p.st[(size_t)y * p.w + x];
    if (kind == EV_SB_START) {
        seg_sbs++;
        if (s != 0) bad("seg_sb_twice", "picture %llu tg %d: SB (%d,%d) coded twice (segment %llu)", (unsigned long long)picnum, tg, x, y, (unsigned long long)c);
        auto done = [&](int xx, int yy) { return xx < 0 || yy < 0 || xx >= p.w || yy >= p.h || p.st[(size_t)yy * p.w + xx] == 2; };
        if (!done(x - 1, y)) bad("seg_dependency", "picture %llu tg %d: SB (%d,%d) started before its left neighbour finished", (unsigned long long)picnum, tg, x, y);
        if (!done(x, y - 1)) bad("seg_dependency", "picture %llu tg %d: SB (%d,%d) started before its upper neighbour finished", (unsigned long long)picnum, tg, x, y);
        if (!done(x + 1, y - 1)) bad("seg_dependency", "picture %llu tg %d: SB (%d,%d) started before its upper-right neighbour finished", (unsigned long long)picnum, tg, x, y);
        s = 1; p.started++;
        if ((uint64_t)(p.started - p.ended) > seg_max_parallel) seg_max_parallel = p.started - p.ended;
    } else if (kind == EV_SB_END) {
        if (s != 1) bad("seg_end_without_start", "picture %llu: SB (%d,%d) ended in state %d", (unsigned long long)picnum, x, y, s);
        s = 2; p.ended++;
        if (p.ended == p.w * p.h) seg_pics_completed++;
    }
}

uint64_t tool_blocks[8], tool_total_blocks;
void sink(int kind, uint64_t a, uint64_t b, uint64_t c, uint64_t d) {
    n_events++;
    if (kind == 50) { char b[160]; snprintf(b, sizeof b, "the encoder's fatal-error handler was called with internal error 0x%llx (error packet posted, the reporting thread then spins for ever)", (unsigned long long)a); world_fatal("TRAP_LIB_ERROR", b); }
    if (kind == 40) { tool_total_blocks++; for (int i = 0; i < 8; i++) if ((a >> i) & 1) tool_blocks[i]++; return; }
    if (kind >= 1 && kind <= 10) { if (srm_enabled) srm_event(kind, a, b, c, d); }
    else if (kind >= 20 && kind <= 24) { if (seg_enabled) seg_event(kind, a, b, c, d); }
}
} // namespace

void events_install() {
    const J &o = g_case["oracles"];
    seg_enabled = o.geti("seg_events", 1); srm_enabled = o.geti("srm_events", 1);
    sim_set_event_sink(sink);
}
void events_tool_usage(J &out) {
    static const char *nm[8] = {"palette", "intrabc", "filter_intra", "cfl", "interintra", "obmc", "warped", "global_mv"};
    out = J::obj(); for (int i = 0; i < 8; i++) out.set(nm[i], tool_blocks[i]); out.set("blocks", tool_total_blocks);
}
void events_summarize(J &out) {
    out = J::obj();
    out.set("events", n_events); out.set("srm_events", n_srm); out.set("seg_events", n_seg);
    out.set("resources", (uint64_t)ress.size()); out.set("post_signature", hex64(post_sig));
    uint64_t posts = 0, delivers = 0, releases = 0, returns = 0; for (auto &r : ress) { posts += r.posts; delivers += r.delivers; releases += r.releases; returns += r.returns; }
    out.set("posts", posts); out.set("deliveries", delivers); out.set("releases", releases); out.set("returns", returns);
    out.set("release_of_pooled", release_of_pooled); out.set("release_hold", release_hold); out.set("nonblocking_empty", nb_empty); out.set("shutdown_returns", shutdown_returns);
    out.set("max_full_occupancy", max_full_occupancy);
    out.set("seg_pictures_completed", seg_pics_completed); out.set("seg_sbs", seg_sbs); out.set("seg_assigns", seg_assigns); out.set("seg_resets", seg_resets);
    out.set("seg_max_parallel_sbs", seg_max_parallel); out.set("seg_multi_segment_pictures", seg_multi_seg_pics);
    // incomplete pictures at the end (only meaningful when the run drained; the world decides)
    int incomplete = 0; for (auto &p : pics) if (p.second.w && p.second.ended != p.second.w * p.second.h) incomplete++;
    out.set("seg_incomplete_at_end", incomplete);
    // objects still queued for a consumer at the end
    uint64_t undelivered = 0; for (auto &f : fifos) undelivered += f.second.pending.size();
    out.set("srm_pending_at_end", undelivered);
    // per-resource census of object states (diagnostic: which pool is exhausted in a decided deadlock)
    if (g_case["oracles"].geti("srm_census", 0)) {
        std::vector<std::vector<int>> cen(ress.size(), std::vector<int>(6, 0));
        for (auto &w : wraps) if (w.second.res >= 0 && (size_t)w.second.res < ress.size()) cen[w.second.res][w.second.state]++;
        J a = J::arr(); for (size_t i = 0; i < ress.size(); i++) { J e = J::arr(); e.push((uint64_t)ress[i].nobj); for (int k = 0; k < 6; k++) e.push((uint64_t)cen[i][k]); a.push(e); }
        out.set("srm_census", a);
    }
}
