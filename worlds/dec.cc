// W2: whole-decoder world.  Feeds temporal units through a simulated (possibly faulty) transport
// to the SVT decoder running under the scheduler; compares with dav1d on clean streams.
#include "common.h"
#include "../oracles/refdec.h"
#include <cstring>
#include <cstdio>
#include <memory>
#include <algorithm>
extern "C" {
#include "EbSvtAv1Dec.h"
}

static std::vector<std::vector<uint8_t>> load_tus(const std::string &path) {
    std::vector<std::vector<uint8_t>> v; FILE *f = fopen(path.c_str(), "rb"); if (!f) return v;
    for (;;) { uint32_t n; if (fread(&n, 4, 1, f) != 1) break; std::vector<uint8_t> d(n); if (n && fread(d.data(), 1, n, f) != n) break; v.push_back(std::move(d)); }
    fclose(f); return v;
}

static J apply_transport(std::vector<std::vector<uint8_t>> &tus, const J &ops, const std::vector<std::vector<uint8_t>> &orig) {
    J fired = J::obj(); auto bump = [&](const std::string &k) { fired.set(k, fired.geti(k.c_str(), 0) + 1); };
    for (auto &o : ops.a) {
        if (tus.empty()) break;
        std::string kind = o.gets("kind", ""); size_t k = (size_t)(o.geti("tu", 0)) % tus.size();
        if (kind == "drop") { tus.erase(tus.begin() + k); bump(kind); }
        else if (kind == "dup") { tus.insert(tus.begin() + k, tus[k]); bump(kind); }
        else if (kind == "swap") { if (k + 1 < tus.size()) { std::swap(tus[k], tus[k + 1]); bump(kind); } }
        else if (kind == "trunc") { if (!tus[k].empty()) { size_t at = (size_t)o.geti("at", 0) % tus[k].size(); tus[k].resize(at); bump(kind); } }
        else if (kind == "flip") { for (auto &b : o["bits"].a) if (!tus[k].empty()) { size_t bit = (size_t)b.U() % (tus[k].size() * 8); tus[k][bit >> 3] ^= (uint8_t)(0x80 >> (bit & 7)); bump(kind); } }
        else if (kind == "set") { if (!tus[k].empty()) { size_t at = (size_t)o.geti("at", 0) % tus[k].size(); tus[k][at] = (uint8_t)o.geti("val", 0); bump(kind); } }
        else if (kind == "rand") { Rng r((uint64_t)o.geti("seed", 1)); size_t n = (size_t)o.geti("len", 64); std::vector<uint8_t> d(n); for (auto &x : d) x = (uint8_t)r.next(); tus[k] = d; bump(kind); }
        else if (kind == "randtail") { if (!tus[k].empty()) { Rng r((uint64_t)o.geti("seed", 1)); size_t at = (size_t)o.geti("at", 0) % tus[k].size(); for (size_t i = at; i < tus[k].size(); i++) tus[k][i] = (uint8_t)r.next(); bump(kind); } }
        else if (kind == "splice") { size_t j = (size_t)o.geti("from", 0) % orig.size(); if (!tus[k].empty() && !orig[j].empty()) { size_t at = (size_t)o.geti("at", 0) % tus[k].size(); size_t at2 = (size_t)o.geti("at2", 0) % orig[j].size(); tus[k].resize(at); tus[k].insert(tus[k].end(), orig[j].begin() + at2, orig[j].end()); bump(kind); } }
        else if (kind == "insert") { Rng r((uint64_t)o.geti("seed", 1)); size_t n = (size_t)o.geti("len", 4); size_t at = tus[k].empty() ? 0 : (size_t)o.geti("at", 0) % tus[k].size(); std::vector<uint8_t> d(n); for (auto &x : d) x = (uint8_t)r.next(); tus[k].insert(tus[k].begin() + at, d.begin(), d.end()); bump(kind); }
        else if (kind == "empty") { tus[k].clear(); bump(kind); }
        else if (kind == "concat") { // another stream (possibly another picture size) continues on the same handle
            std::vector<std::vector<uint8_t>> other = load_tus(o.gets("path", "")); size_t keep = (size_t)o.geti("keep", (int64_t)tus.size());
            if (keep < tus.size()) tus.resize(keep);
            for (auto &t : other) tus.push_back(t);
            if (!other.empty()) bump(kind);
        }
    }
    return fired;
}

struct DecOut { J hist = J::arr(); J pics = J::arr(); uint64_t oh = fnv_init(); std::vector<std::vector<uint8_t>> outp; J sess = J::arr(); };
// one or more decoder sessions over the given temporal units, driven by the calling (simulated) application task
static void dec_sessions(const J &g_case, const std::vector<std::vector<uint8_t>> &tus, DecOut &O, bool count_allocs) {
    int W = (int)g_case.geti("w", 64), H = (int)g_case.geti("h", 64), bd = (int)g_case.geti("bd", 8), threads = (int)g_case.geti("threads", 1);
    int annexb = (int)g_case.geti("annexb", 0);
    int teardown_after = (int)g_case.geti("teardown_after", -1); // stop feeding after k TUs (mid-stream teardown)
    int sessions = (int)g_case.geti("sessions", 1);
    J &hist = O.hist; J &pics = O.pics; uint64_t &oh = O.oh; std::vector<std::vector<uint8_t>> &outp = O.outp; J &sess = O.sess;
    for (int s = 0; s < sessions; s++) {
        EbComponentType *h = nullptr; std::vector<uint8_t> cfgmem(sizeof(EbSvtAv1DecConfiguration) + 64, (uint8_t)g_case.geti("cfg_fill", 0)); EbSvtAv1DecConfiguration *cfg = (EbSvtAv1DecConfiguration *)(cfgmem.data() + 32);
        if (count_allocs) sim_count_allocs(1);
        sim_api_enter(); EbErrorType e = svt_av1_dec_init_handle(&h, nullptr, cfg); sim_api_exit();
        { J r = J::arr(); r.push("dec_init_handle"); r.push((long long)e); r.push(sim_alloc_counter()); hist.push(r); }
        if (e == EB_ErrorNone && h) {
            cfg->threads = threads; cfg->max_picture_width = W; cfg->max_picture_height = H; cfg->max_bit_depth = bd > 8 ? EB_TEN_BIT : EB_EIGHT_BIT; cfg->max_color_format = EB_YUV420;
            cfg->eight_bit_output = 0; cfg->is_16bit_pipeline = (EbBool)g_case.geti("is_16bit_pipeline", 0); cfg->skip_film_grain = (EbBool)g_case.geti("skip_film_grain", 0); cfg->num_p_frames = 1;
            sim_api_enter(); e = svt_av1_dec_set_parameter(h, cfg); sim_api_exit();
            { J r = J::arr(); r.push("dec_set_param"); r.push((long long)e); r.push(sim_alloc_counter()); hist.push(r); }
            EbErrorType ei = EB_ErrorNone;
            if (e == EB_ErrorNone) { sim_api_enter(); ei = svt_av1_dec_init(h); sim_api_exit(); J r = J::arr(); r.push("dec_init"); r.push((long long)ei); r.push(sim_alloc_counter()); hist.push(r); }
            if (e == EB_ErrorNone && ei == EB_ErrorNone) {
                int w2 = (W + 1) & ~1, h2 = (H + 1) & ~1; size_t bps = bd > 8 ? 2 : 1; size_t ysz = (size_t)w2 * h2 * bps;
                // planes come from malloc: when the picture geometry changes the library free()s and re-allocates them (as SvtAv1DecApp expects)
                EbSvtIOFormat io; memset(&io, 0, sizeof io); io.luma = (uint8_t *)malloc(ysz + 64); io.cb = (uint8_t *)malloc(ysz / 4 + 64); io.cr = (uint8_t *)malloc(ysz / 4 + 64); io.y_stride = W; io.cb_stride = io.cr_stride = W / 2; io.width = W; io.height = H;
                io.bit_depth = bd > 8 ? EB_TEN_BIT : EB_EIGHT_BIT; io.color_fmt = EB_YUV420;
                EbBufferHeaderType ob; memset(&ob, 0, sizeof ob); ob.p_buffer = (uint8_t *)&io; ob.size = sizeof ob;
                EbAV1StreamInfo si; EbAV1FrameInfo fi; memset(&si, 0, sizeof si); memset(&fi, 0, sizeof fi);
                for (size_t k = 0; k < tus.size(); k++) {
                    if (teardown_after >= 0 && (int)k >= teardown_after) break;
                    // library must treat the input as read-only bytes: hand it an exact-size heap copy so that any overread is visible to ASan
                    // (the decoder's word-based bit reader is designed to look 8 bytes ahead — a recorded finding; "exact_input" runs keep
                    //  demonstrating it, all other runs give 16 zero bytes of slack so that ASan stays usable for everything else)
                    size_t slack = g_case.geti("exact_input", 0) ? 0 : 16;
                    uint8_t *buf = (uint8_t *)malloc(tus[k].size() + slack ? tus[k].size() + slack : 1); if (tus[k].size()) memcpy(buf, tus[k].data(), tus[k].size()); if (slack) memset(buf + tus[k].size(), 0, slack);
                    uint64_t d0 = sim_decision();
                    sim_api_enter(); EbErrorType ef = svt_av1_dec_frame(h, buf, tus[k].size(), annexb); sim_api_exit();
                    int got = 0;
                    for (int g = 0; g < 4; g++) {
                        sim_api_enter(); EbErrorType eg = svt_av1_dec_get_picture(h, &ob, &si, &fi); sim_api_exit();
                        if (eg == EB_DecNoOutputPicture) break; if (eg != EB_ErrorNone) break;
                        got++;
                        if (s == 0) {
                            int pw = (int)io.width, ph = (int)io.height; std::vector<uint8_t> p; p.reserve(((size_t)pw * ph * 3 / 2) * bps);
                            for (int y = 0; y < ph; y++) p.insert(p.end(), io.luma + (size_t)y * io.y_stride * bps, io.luma + ((size_t)y * io.y_stride + pw) * bps);
                            for (int y = 0; y < ph / 2; y++) p.insert(p.end(), io.cb + (size_t)y * io.cb_stride * bps, io.cb + ((size_t)y * io.cb_stride + pw / 2) * bps);
                            for (int y = 0; y < ph / 2; y++) p.insert(p.end(), io.cr + (size_t)y * io.cr_stride * bps, io.cr + ((size_t)y * io.cr_stride + pw / 2) * bps);
                            uint64_t hh = fnv1a(fnv_init(), p.data(), p.size()); pics.push(hex64(hh)); oh = fnv1a(oh, &hh, 8); outp.push_back(std::move(p));
                        }
                        break; // the decoder outputs at most one picture per temporal unit
                    }
                    free(buf);
                    if (hist.a.size() < 5000) { J r = J::arr(); r.push("dec_frame"); r.push((long long)ef); r.push(got); r.push(d0); r.push(sim_decision()); hist.push(r); }
                }
                sim_api_enter(); e = svt_av1_dec_deinit(h); sim_api_exit(); { J r = J::arr(); r.push("dec_deinit"); r.push((long long)e); hist.push(r); }
                free(io.luma); free(io.cb); free(io.cr);
            }
            sim_api_enter(); e = svt_av1_dec_deinit_handle(h); sim_api_exit(); { J r = J::arr(); r.push("dec_deinit_handle"); r.push((long long)e); hist.push(r); }
        }
        if (count_allocs) sim_count_allocs(0);
        const SimStats *st = sim_stats(); J l = J::obj(); l.set("live_blocks", st->lib_live_blocks); l.set("live_bytes", st->lib_live_bytes); l.set("threads_created", st->threads_created); l.set("threads_exited", st->threads_exited);
        l.set("threads_joined", st->threads_joined); l.set("mutexes_live", (long long)st->mutexes_created - (long long)st->mutexes_destroyed); l.set("sems_live", (long long)st->sems_created - (long long)st->sems_destroyed); sess.push(l);
    }
}
// W4: a decoder instance inside the multi-instance world (called on that instance's application task)
void dec_instance_run(const J &inst, J &out) {
    std::vector<std::vector<uint8_t>> tus = load_tus(inst.gets("stream", ""));
    if (inst.has("max_tus") && tus.size() > (size_t)inst.geti("max_tus", 0)) tus.resize((size_t)inst.geti("max_tus", 0));
    if (int d = (int)inst.geti("delay", 0)) sim_app_stall(d);
    DecOut O; dec_sessions(inst, tus, O, false);
    out.set("history", O.hist); out.set("pictures", O.pics); out.set("npictures", (uint64_t)O.pics.a.size()); out.set("output_hash", hex64(O.oh)); out.set("tus", (uint64_t)tus.size());
    // instances are compared through the same two keys as encoder instances
    out.set("stream_hash", hex64(O.oh)); out.set("recon_hash", std::string("dec"));
}

void run_dec_world() {
    SimConfig sc; sim_config_from_case(g_case, sc);
    std::vector<std::vector<uint8_t>> orig = load_tus(g_case.gets("stream", ""));
    if (orig.empty() && !g_case.geti("allow_empty", 0)) { g_result.set("outcome", "HARNESS_ERROR"); g_result.set("detail", "cannot load stream " + g_case.gets("stream", "")); finish(); }
    if (g_case.has("max_tus") && orig.size() > (size_t)g_case.geti("max_tus", 0)) orig.resize((size_t)g_case.geti("max_tus", 0));
    std::vector<std::vector<uint8_t>> tus = orig;
    J fired = J::obj(); if (g_case.has("transport")) fired = apply_transport(tus, g_case["transport"], orig);
    g_result.set("transport_fired", fired); g_result.set("tus", (uint64_t)tus.size());
    int W = (int)g_case.geti("w", 64), H = (int)g_case.geti("h", 64), bd = (int)g_case.geti("bd", 8), threads = (int)g_case.geti("threads", 1);
    int annexb = (int)g_case.geti("annexb", 0); bool nulls = g_case.has("null_at");
    int teardown_after = (int)g_case.geti("teardown_after", -1); // stop feeding after k TUs (mid-stream teardown)
    int sessions = (int)g_case.geti("sessions", 1);
    DecOut O; J &hist = O.hist; J &pics = O.pics; uint64_t &oh = O.oh; std::vector<std::vector<uint8_t>> &outp = O.outp; J &sess = O.sess;

    sim_start(&sc, world_fatal);
    if (g_case.geti("null_calls", 0)) {
        // C14: every public decoder entry point with NULL handle / NULL buffer arguments must return an error code
        auto rec = [&](const char *name, long long e) { J r = J::arr(); r.push(std::string("null:") + name); r.push(e); hist.push(r); };
        EbSvtAv1DecConfiguration cfg0; memset(&cfg0, 0, sizeof cfg0); EbComponentType *hh = nullptr; uint8_t b[8] = {0x12, 0, 0, 0, 0, 0, 0, 0};
        EbBufferHeaderType ob; memset(&ob, 0, sizeof ob); EbAV1StreamInfo si; EbAV1FrameInfo fi; memset(&si, 0, sizeof si); memset(&fi, 0, sizeof fi);
        sim_api_enter();
        rec("dec_init_handle(NULL,cfg)", svt_av1_dec_init_handle(nullptr, nullptr, &cfg0));
        rec("dec_init_handle(&h,NULL)", svt_av1_dec_init_handle(&hh, nullptr, nullptr)); if (hh) { svt_av1_dec_deinit_handle(hh); hh = nullptr; }
        rec("dec_set_parameter(NULL,cfg)", svt_av1_dec_set_parameter(nullptr, &cfg0));
        rec("dec_init(NULL)", svt_av1_dec_init(nullptr));
        rec("dec_frame(NULL,..)", svt_av1_dec_frame(nullptr, b, 2, 0));
        rec("dec_get_picture(NULL,..)", svt_av1_dec_get_picture(nullptr, &ob, &si, &fi));
        rec("dec_deinit(NULL)", svt_av1_dec_deinit(nullptr));
        rec("dec_deinit_handle(NULL)", svt_av1_dec_deinit_handle(nullptr));
        sim_api_exit();
        if (g_case.geti("null_calls", 0) >= 2) {
            // with a live handle: NULL buffers
            std::vector<uint8_t> cm(sizeof(EbSvtAv1DecConfiguration) + 64, 0); EbSvtAv1DecConfiguration *c2 = (EbSvtAv1DecConfiguration *)(cm.data() + 32); EbComponentType *h2 = nullptr;
            sim_api_enter();
            if (svt_av1_dec_init_handle(&h2, nullptr, c2) == EB_ErrorNone && h2) {
                c2->threads = 1; c2->max_picture_width = W; c2->max_picture_height = H; c2->max_bit_depth = EB_EIGHT_BIT; c2->max_color_format = EB_YUV420; c2->num_p_frames = 1;
                rec("dec_set_parameter(h,NULL)", svt_av1_dec_set_parameter(h2, nullptr));
                if (svt_av1_dec_set_parameter(h2, c2) == EB_ErrorNone && svt_av1_dec_init(h2) == EB_ErrorNone) {
                    rec("dec_frame(h,NULL,0)", svt_av1_dec_frame(h2, nullptr, 0, 0));
                    rec("dec_get_picture(h,NULL,..)", svt_av1_dec_get_picture(h2, nullptr, &si, &fi));
                    svt_av1_dec_deinit(h2);
                }
                svt_av1_dec_deinit_handle(h2);
            }
            sim_api_exit();
        }
    }
    dec_sessions(g_case, tus, O, true);
    const SimStats *st = sim_stats();
    J ledger = J::obj(); ledger.set("all_torn_down", true); ledger.set("threads_created", st->threads_created); ledger.set("threads_exited", st->threads_exited); ledger.set("threads_joined", st->threads_joined);
    ledger.set("live_blocks", st->lib_live_blocks); ledger.set("live_bytes", st->lib_live_bytes); ledger.set("mutexes_live", (long long)st->mutexes_created - (long long)st->mutexes_destroyed); ledger.set("sems_live", (long long)st->sems_created - (long long)st->sems_destroyed);
    { uint64_t sites[16], seqs[16]; size_t nlive = sim_live_blocks(sites, seqs, 16); J ls = J::arr(); for (size_t i = 0; i < std::min<size_t>(nlive, 16); i++) { J e = J::arr(); e.push(hex64(sites[i])); e.push(seqs[i]); ls.push(e); } ledger.set("live_sample", ls); }
    g_result.set("ledger", ledger); g_result.set("sessions", sess);
    if (st->threads_exited == st->threads_created) sim_stop();
    g_result.set("history", hist); g_result.set("pictures", pics); g_result.set("npictures", (uint64_t)pics.a.size()); g_result.set("output_hash", hex64(oh));
    g_result.set("last_failed_site", hex64(sim_last_failed_site()));
    // reference decode of the clean stream
    if (g_case["oracles"].geti("decode", 0)) {
        std::string err; std::unique_ptr<refdec::Decoder> d(refdec::open_dav1d(err));
        if (!d) { oracle_fail("refdec_unavailable", err); return; }
        g_result.set("reference_decoder", d->name());
        std::vector<refdec::Picture> rp; bool ok = true;
        for (auto &t : tus) if (!t.empty() && !d->decode(t.data(), t.size(), rp, err)) { ok = false; break; }
        if (ok) d->flush(rp, err);
        g_result.set("reference_ok", ok); g_result.set("reference_pictures", (uint64_t)rp.size());
        if (ok) {
            if (rp.size() != outp.size()) { char b[128]; snprintf(b, sizeof b, "SVT decoder returned %zu pictures, %s %zu", outp.size(), d->name(), rp.size()); oracle_fail("dec_picture_count", b); }
            for (size_t k = 0; k < rp.size() && k < outp.size(); k++) {
                if (rp[k].w != W || rp[k].h != H) continue;
                if (rp[k].data != outp[k]) { size_t i = 0; while (i < outp[k].size() && i < rp[k].data.size() && outp[k][i] == rp[k].data[i]) i++; char b[160]; snprintf(b, sizeof b, "picture %zu differs from %s (first byte %zu of %zu)", k, d->name(), i, outp[k].size()); oracle_fail("dec_mismatch", b); if (oracle_fail_count() > 20) break; }
            }
        }
    }
    J ev; events_summarize(ev); g_result.set("events", ev);
}
