// Shared harness infrastructure for all simulated worlds.
#pragma once
#include "json.h"
#include "../sim/simcore.h"
#include <cstdint>
#include <string>
#include <vector>

extern J g_case;      // the case being executed
extern J g_result;    // result under construction (written by finish())
extern std::vector<SimDeviation> g_devs;

uint64_t fnv1a(uint64_t h, const void *p, size_t n);
inline uint64_t fnv_init() { return 1469598103934665603ULL; }
std::string hex64(uint64_t v);

struct Rng { uint64_t s; explicit Rng(uint64_t seed) : s(seed * 0x9e3779b97f4a7c15ULL + 0x1234567) {} uint64_t next() { uint64_t z = (s += 0x9e3779b97f4a7c15ULL); z = (z ^ (z >> 30)) * 0xbf58476d1ce4e5b9ULL; z = (z ^ (z >> 27)) * 0x94d049bb133111ebULL; return z ^ (z >> 31); } uint32_t below(uint32_t n) { return n ? (uint32_t)(next() % n) : 0; } };

// Fill SimConfig from case["sim"], case["machine"], case["mem"]
void sim_config_from_case(const J &c, SimConfig &sc);
// add sim stats / trace to g_result
void add_sim_stats();
// write g_result to the result file and _exit(0)
[[noreturn]] void finish();
// fatal callback handed to sim_start
void world_fatal(const char *cls, const char *detail);
// oracle failure list
void oracle_fail(const std::string &name, const std::string &detail);
int  oracle_fail_count();

// event checkers (events.cc)
void events_install();            // installs the sink
void events_summarize(J &out);    // SRM + segment checker summaries; failures are reported through oracle_fail
void events_tool_usage(J &out);   // per-block tool usage counters (decoder parse hook)

// worlds
void run_enc_world();   // also api programs and multi-instance
void run_dec_world();
void run_srm_world();
void run_seg_world();
void run_aomenc_world();   // stream generator (libaom encoder), not a simulation
