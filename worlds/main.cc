// simworld: executes one simulation case (JSON file) and writes one result (JSON file).
// usage: simworld <case.json> <result.json>
#include "common.h"
#include <cstdio>
#include <cstring>
#include <fstream>
#include <sstream>
#include <unistd.h>
#include <fcntl.h>

J g_case, g_result = J::obj();
std::vector<SimDeviation> g_devs;
static std::string g_result_path;
static J g_failures = J::arr();
static int g_finishing = 0;

uint64_t fnv1a(uint64_t h, const void *p, size_t n) { const uint8_t *b = (const uint8_t *)p; for (size_t i = 0; i < n; i++) h = (h ^ b[i]) * 1099511628211ULL; return h; }
std::string hex64(uint64_t v) { char b[20]; snprintf(b, sizeof b, "%016llx", (unsigned long long)v); return b; }

void oracle_fail(const std::string &name, const std::string &detail) {
    if (g_failures.a.size() < 200) {
        J f = J::obj(); f.set("name", name); f.set("detail", detail); g_failures.push(f);
        // invariant violations seen online survive a later crash of the process: append them to <result>.early at once
        if (sim_active() && g_failures.a.size() <= 20) {
            int fd = open((g_result_path + ".early").c_str(), O_WRONLY | O_CREAT | O_APPEND, 0644);
            if (fd >= 0) { std::string l = f.str() + "\n"; if (write(fd, l.data(), l.size()) < 0) {} close(fd); }
        }
    }
}
int oracle_fail_count() { return (int)g_failures.a.size(); }

extern "C" char __executable_start;
static char *image_base() { return &__executable_start; }
static int policy_of(const std::string &s) {
    if (s == "np") return POL_NP; if (s == "rand") return POL_RAND; if (s == "pct") return POL_PCT; if (s == "starve") return POL_STARVE;
    if (s == "burst") return POL_BURST; if (s == "explicit") return POL_EXPLICIT; if (s == "rr") return POL_RR; return POL_NP;
}
void sim_config_from_case(const J &c, SimConfig &sc) {
    memset(&sc, 0, sizeof sc);
    const J &s = c["sim"]; const J &m = c["machine"]; const J &mem = c["mem"];
    sc.seed = s["seed"].U(1); sc.policy = policy_of(s.gets("policy", "np")); sc.sw_permille = (int)s.geti("sw", 100);
    sc.pct_depth = (int)s.geti("pct_depth", 3); sc.pct_horizon = (uint64_t)s.geti("pct_horizon", 6000);
    sc.starve_mod = (int)s.geti("starve_mod", 0); sc.starve_rem = (int)s.geti("starve_rem", 0); sc.starve_tid = (int)s.geti("starve_tid", -1);
    sc.step_limit = (uint64_t)s.geti("step_limit", 0); sc.clock_quantum_ns = (uint64_t)s.geti("quantum", 10000);
    sc.eintr_permille = (int)s.geti("eintr", 0); sc.spurious_permille = (int)s.geti("spurious", 0); sc.eperm_create = (int)s.geti("eperm", 0);
    if (s.has("dev")) { for (auto &d : s["dev"].a) g_devs.push_back({d.a[0].U(), (int)d.a[1].I()}); sc.dev = g_devs.data(); sc.ndev = g_devs.size(); }
    if (s.has("jumps")) for (auto &d : s["jumps"].a) if (sc.njump < 4) { sc.jump_at[sc.njump] = d.a[0].U(); sc.jump_ns[sc.njump] = d.a[1].U(); sc.njump++; }
    if (s.has("stall")) { sc.stall_at = s["stall"].a[0].U(); sc.stall_tid = (int)s["stall"].a[1].I(); sc.stall_len = s["stall"].a[2].U(); }
    sc.fine_period = (uint64_t)s.geti("fine", 0); sc.mem_period = (uint64_t)s.geti("mem", 0);
    if (s.has("api_stall")) { sc.api_stall_permille = (int)s["api_stall"].a[0].I(); sc.api_stall_len = s["api_stall"].a[1].U(); }
    sc.record_trace = (int)s.geti("record", 1);
    sc.cores = (int)m.geti("cores", 4); sc.sockets = (int)m.geti("sockets", 1); sc.cpuinfo_mode = (int)m.geti("cpuinfo", 0);
    sc.poison = (int)mem.geti("poison", 0xA5); sc.alloc_fail_at = mem.geti("alloc_fail_at", 0); sc.thread_fail_at = mem.geti("thread_fail_at", 0);
}
void add_sim_stats() {
    const SimStats *st = sim_stats(); J s = J::obj();
    s.set("decisions", st->decisions); s.set("switches", st->switches); s.set("spins", st->spins); s.set("sleeps", st->sleeps);
    s.set("trace_hash", hex64(st->trace_hash)); s.set("sim_ns", st->sim_ns);
    s.set("threads_created", st->threads_created); s.set("threads_exited", st->threads_exited); s.set("threads_joined", st->threads_joined);
    s.set("mutexes_created", st->mutexes_created); s.set("mutexes_destroyed", st->mutexes_destroyed); s.set("sems_created", st->sems_created); s.set("sems_destroyed", st->sems_destroyed);
    s.set("conds_created", st->conds_created);
    s.set("lib_allocs", st->lib_allocs); s.set("lib_frees", st->lib_frees); s.set("lib_live_blocks", st->lib_live_blocks); s.set("lib_live_bytes", st->lib_live_bytes); s.set("lib_peak_bytes", st->lib_peak_bytes);
    s.set("alloc_faults_fired", st->alloc_faults_fired); s.set("thread_faults_fired", st->thread_faults_fired); s.set("eintr_fired", st->eintr_fired);
    s.set("spurious_fired", st->spurious_fired); s.set("eperm_fired", st->eperm_fired); s.set("jumps_fired", st->jumps_fired); s.set("stall_fired", st->stall_fired);
    s.set("max_runnable", st->max_runnable); s.set("dev_inapplicable", st->dev_inapplicable); s.set("alloc_counter", sim_alloc_counter()); s.set("thread_create_counter", sim_thread_create_counter());
    s.set("nthreads", sim_nthreads()); s.set("fine_preemptions", st->fine_preemptions); s.set("fine_calls", st->fine_calls); s.set("mem_preemptions", st->mem_preemptions); s.set("mem_accesses", st->mem_accesses);
    g_result.set("sim", s);
    if (g_case["sim"].geti("emit_threads", 0)) {   // start routines of the simulated threads (image-relative), for diagnostics
        J t = J::arr();
        for (int i = 0; i < sim_nthreads(); i++) t.push((uint64_t)((char *)sim_thread_fn(i) - image_base()));
        g_result.set("thread_fns", t);
    }
    if (g_case["sim"].geti("emit_trace", 0)) {
        const SimDeviation *d; size_t n = sim_trace(&d); J t = J::arr();
        for (size_t i = 0; i < n; i++) { J e = J::arr(); e.push(d[i].decision); e.push(d[i].tid); t.push(e); }
        g_result.set("trace", t);
    }
}
void finish() {
    if (g_finishing++) _exit(71);
    if (!g_result.has("outcome")) g_result.set("outcome", "ok");
    add_sim_stats();
    g_result.set("failures", g_failures);
    std::string s = g_result.str(); s += "\n";
    int fd = open(g_result_path.c_str(), O_WRONLY | O_CREAT | O_TRUNC, 0644);
    if (fd >= 0) { size_t o = 0; while (o < s.size()) { ssize_t w = write(fd, s.data() + o, s.size() - o); if (w <= 0) break; o += (size_t)w; } close(fd); }
    _exit(0);
}
extern "C" char __executable_start;
void world_fatal(const char *cls, const char *detail) {
    g_result.set("outcome", cls); g_result.set("detail", detail);
    if (!strcmp(cls, "DEADLOCK") || !strcmp(cls, "LIVELOCK")) {   // wait-for signature: where every blocked task waits (image-relative return addresses; the driver symbolises)
        J a = J::arr(); uintptr_t base = (uintptr_t)&__executable_start;
        for (int t = 0; t < sim_nthreads(); t++) {
            uintptr_t pcs[12]; size_t n = sim_blocked_pcs(t, pcs, 12); if (!n) continue;
            std::string s; char b[32]; for (size_t k = 0; k < n; k++) { snprintf(b, sizeof b, "%s0x%lx", k ? "," : "", (unsigned long)(pcs[k] - base - 1)); s += b; }
            J e = J::arr(); e.push(t); e.push(s); a.push(e);
        }
        g_result.set("blocked", a);
    }
    J ev; events_summarize(ev); g_result.set("events", ev);
    finish();
}

// ---- crash site reporting on the sanitizer-free build: print pc + frame-pointer chain relative to the image base; the driver
// symbolises them offline (llvm-symbolizer) so that crash signatures are function-level on both builds ------------------------
#if defined(__has_feature)
#if __has_feature(address_sanitizer)
#define SIM_HAS_ASAN 1
#endif
#endif
#ifndef SIM_HAS_ASAN
#include <signal.h>
#include <ucontext.h>
extern "C" char __executable_start;
static void crash_handler(int sig, siginfo_t *, void *uc_) {
    ucontext_t *uc = (ucontext_t *)uc_; char buf[512]; int o = 0;
    uintptr_t pc = (uintptr_t)uc->uc_mcontext.gregs[REG_RIP], fp = (uintptr_t)uc->uc_mcontext.gregs[REG_RBP], base = (uintptr_t)&__executable_start;
    o += snprintf(buf + o, sizeof buf - o, "SIMCRASH sig=%d pcs=0x%lx", sig, (unsigned long)(pc - base));
    for (int d = 0; d < 7 && fp && !(fp & 7); d++) {
        uintptr_t *f = (uintptr_t *)fp; uintptr_t ra = f[1], nfp = f[0];
        if (ra < base || ra - base > (1ul << 30)) break;
        o += snprintf(buf + o, sizeof buf - o, ",0x%lx", (unsigned long)(ra - base - 1));
        if (nfp <= fp || nfp - fp > (1ul << 22)) break; fp = nfp;
    }
    buf[o++] = '\n'; if (write(2, buf, (size_t)o) < 0) {}
    signal(sig, SIG_DFL); raise(sig);
}
static void install_crash_handler() {
    static char altstack[65536]; stack_t ss; ss.ss_sp = altstack; ss.ss_size = sizeof altstack; ss.ss_flags = 0; sigaltstack(&ss, nullptr);
    struct sigaction sa; memset(&sa, 0, sizeof sa); sa.sa_sigaction = crash_handler; sa.sa_flags = SA_SIGINFO | SA_ONSTACK | SA_NODEFER;
    for (int s : {SIGSEGV, SIGBUS, SIGFPE, SIGILL, SIGABRT}) sigaction(s, &sa, nullptr);
}
#else
static void install_crash_handler() {}
#endif

int main(int argc, char **argv) {
    if (argc < 3) { fprintf(stderr, "usage: simworld case.json result.json\n"); return 64; }
    install_crash_handler();
    std::ifstream in(argv[1]); std::stringstream ss; ss << in.rdbuf(); bool ok = false; g_case = J::parse(ss.str(), &ok);
    if (!ok) { fprintf(stderr, "bad case json\n"); return 65; }
    g_result_path = argv[2];
    if (!g_case.geti("verbose", 0)) { setenv("SVT_LOG", "1", 1); setenv("SVT_LOG_FILE", "/dev/null", 1); }
    // library chatter goes to /dev/null (stdout); stderr is kept for sanitizer reports
    if (!g_case.geti("verbose", 0)) { int dn = open("/dev/null", O_WRONLY); if (dn >= 0) { dup2(dn, 1); if (!g_case.geti("keep_stderr_chatter", 0)) {} close(dn); } }
    std::string w = g_case.gets("world", "enc");
    g_result.set("world", w);
    events_install();
    if (w == "enc" || w == "api" || w == "multi") run_enc_world();
    else if (w == "dec") run_dec_world();
    else if (w == "srm") run_srm_world();
    else if (w == "seg") run_seg_world();
    else if (w == "aomenc") run_aomenc_world();
    else { fprintf(stderr, "unknown world\n"); return 66; }
    finish();
}

// sanitizer defaults: classify by exit code, no leak checking (the ledger does that deterministically)
extern "C" __attribute__((used, visibility("default"))) const char *__asan_default_options() { return "exitcode=77:detect_leaks=0:abort_on_error=0:allocator_may_return_null=1:detect_stack_use_after_return=0:malloc_context_size=6"; }
extern "C" __attribute__((used, visibility("default"))) const char *__ubsan_default_options() { return "print_stacktrace=0:halt_on_error=0"; }

// ---- C bridge for the component worlds written in C (srm.c, seg.c) ----------------------------------
static const J *walk(const char *path) { const J *j = &g_case; std::string p(path); size_t s = 0; while (s < p.size()) { size_t e = p.find('.', s); if (e == std::string::npos) e = p.size(); j = &(*j)[p.substr(s, e - s).c_str()]; s = e + 1; } return j; }
extern "C" long long c_case_int(const char *path, long long def) { const J *j = walk(path); return j->t == J::NUM || j->t == J::BOOL ? j->I() : def; }
extern "C" void c_result_int(const char *key, long long v) { g_result.set(key, v); }
extern "C" void c_result_str(const char *key, const char *v) { g_result.set(key, std::string(v)); }
extern "C" void c_result_push_int(const char *key, long long v) { if (!g_result.has(key)) g_result.set(key, J::arr()); for (auto &p : g_result.o) if (p.first == key) p.second.push(J(v)); }
extern "C" void c_oracle_fail(const char *name, const char *detail) { oracle_fail(name, detail); }
extern "C" void c_sim_start(void) { static SimConfig sc; sim_config_from_case(g_case, sc); sim_start(&sc, world_fatal); }
extern "C" void c_events_summary(void) { J ev; events_summarize(ev); g_result.set("events", ev); }
extern "C" void srm_world_main(void); extern "C" void seg_world_main(void);
void run_srm_world() { srm_world_main(); }
void run_seg_world() { seg_world_main(); }
