#!/usr/bin/env python3
"""Write a replay file for a (known) finding from an explicit case: runs the evaluator, takes the first violation of the property.
usage: mk-finding-replay.py <out.json> <property> <evaluator> <variant> <case.json> [raw_property]"""
import sys, os, json
sys.path.insert(0, os.path.join(os.path.dirname(os.path.abspath(__file__)), '..', 'py'))
from vf import core, engine, checks, checks2, checks3
out, prop, evalname, variant, casef = sys.argv[1:6]
raw = sys.argv[6] if len(sys.argv) > 6 else None
cases = json.load(open(casef))
if isinstance(cases, dict): cases = cases.get('cases') or [cases]
core.build(variant)
vs, rs = engine.EVALUATORS[evalname](cases, variant)
vs = [v for v in vs if v.prop in (prop, raw)]
if not vs:
    print('no violation of', prop, 'from this case:', [(r.get('outcome'), r.get('site')) for r in rs]); sys.exit(1)
v = vs[0]
json.dump({'property': prop, 'raw_property': v.extra.get('raw_prop', v.prop), 'class': v.cls, 'site': v.site, 'detail': v.detail, 'variant': variant, 'evaluator': evalname, 'seed': 0, 'cases': cases}, open(out, 'w'), indent=1)
print('wrote', out, v.signature())
