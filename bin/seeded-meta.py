#!/usr/bin/env python3
"""(development tool) write seeded/REGRESSION.txt from try-seeded logs and create a meta.json for every seeded change that lacks one.
usage: seeded-meta.py <log> [<log> ...]"""
import sys, os, re, json, glob
ROOT = os.path.dirname(os.path.dirname(os.path.abspath(__file__)))
res = {}
for lg in sys.argv[1:]:
    if not os.path.exists(lg): continue
    cur = None
    for l in open(lg, errors='replace'):
        m = re.match(r'SEEDED (\S+) check (\S+) -> exit (\d+): (\d+) violation', l)
        if m: cur = (m.group(1), m.group(2)); res[cur] = {'exit': int(m.group(3)), 'n': int(m.group(4)), 'first': ''}; continue
        if cur and l.startswith('  ') and not res[cur]['first']: res[cur]['first'] = l.strip()[:160]
lines = []
for (sid, prop), r in sorted(res.items()):
    lines.append('%-5s check %-3s -> %s%s' % (sid, prop, 'DETECTED (exit 1, %d violation line(s))' % r['n'] if r['exit'] == 1 else 'not detected (exit %d)' % r['exit'], ('  ' + r['first']) if r['first'] else ''))
open(os.path.join(ROOT, 'seeded', 'REGRESSION.txt'), 'w').write('Last regression of the seeded changes against the registered quick checks (bin/try-seeded.sh <id> <property>; scratch worktree of /repo HEAD + patch.diff, own build directory).\nA change may be listed under more than one check; it counts as caught when one registered check reports it.\n\n' + '\n'.join(lines) + '\n')
for d in sorted(glob.glob(os.path.join(ROOT, 'seeded', '*/'))):
    sid = os.path.basename(d.rstrip('/')); mp = os.path.join(d, 'meta.json')
    if os.path.exists(mp): continue
    rd = next((os.path.join(d, n) for n in ('README.agent.md', 'README.md') if os.path.exists(os.path.join(d, n))), None)
    txt = open(rd, errors='replace').read() if rd else ''
    title = next((l.lstrip('# ').strip() for l in txt.split('\n') if l.startswith('#')), sid)
    m = re.search(r'\n#+[^\n]*(needs|manifest)[^\n]*\n(.*?)(\n#|\Z)', txt, re.S | re.I)
    needs = re.sub(r'\s+', ' ', m.group(2)).strip()[:700] if m else 'see ' + os.path.basename(rd or '')
    files = sorted(set(re.findall(r'^\+\+\+ b/(\S+)', open(os.path.join(d, 'patch.diff')).read(), re.M)))
    prop = re.match(r'(C\d+)', sid).group(1)
    ran = ['bin/try-seeded.sh %s %s -> exit %d, %d violation line(s)%s' % (s2, p2, r['exit'], r['n'], (': ' + r['first']) if r['first'] else '') for (s2, p2), r in sorted(res.items()) if s2 == sid]
    det = [p2 for (s2, p2), r in res.items() if s2 == sid and r['exit'] == 1]
    json.dump({'property': prop, 'summary': title, 'needs': needs, 'files': files, 'detected_by': ('quick check(s) ' + ', '.join(sorted(det))) if det else 'NOT detected in the last regression', 'ran': ran + ['sub-agent demonstration (demo/run.sh): fails with the change, passes without (confirmed in a scratch worktree when the change was accepted)']}, open(mp, 'w'), indent=1)
    print('wrote', mp)
print(open(os.path.join(ROOT, 'seeded', 'REGRESSION.txt')).read())
