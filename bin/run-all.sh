#!/bin/bash
# Run every registered check (tier $1, default quick) one after the other and print one summary line per check.
# usage: bin/run-all.sh [quick|thorough] [Cxx ...]      (VERIF_SEED / VERIF_EVIDENCE_DIR are passed through)
ROOT=$(cd "$(dirname "$0")/.." && pwd); cd "$ROOT"
tier=${1:-quick}; shift
props=${@:-$(jq -r '.checks[].property_id' MANIFEST.json)}
out=${VERIF_LOG_DIR:-$ROOT/.build/logs}; mkdir -p "$out"
for p in $props; do
  s=$(date +%s); bin/verif check $p $tier > "$out/$p.$tier.log" 2>&1; rc=$?
  echo "$p rc=$rc t=$(( $(date +%s)-s ))s viol=$(grep -c '^VIOLATION' "$out/$p.$tier.log") known=$(grep -c '^KNOWN' "$out/$p.$tier.log")"
  grep -E '^VIOLATION|^INTERNAL|^  [A-Za-z_0-9]+:' "$out/$p.$tier.log" | cut -c1-300
done
