#!/usr/bin/env python3
"""Generates /verif/MANIFEST.json (kept in one place so that it always validates)."""
import json, os, subprocess
ROOT = os.path.dirname(os.path.dirname(os.path.abspath(__file__)))

TECH = 'deterministic simulation with fault injection: the real library runs under a seeded serialising scheduler (link-time wraps of pthread/sem/clock/malloc/sysconf), seeded search over schedules, machines, application programs and faults; violations are gated by reproduce-twice and replay files'
CHECKS = {
 'C01': ('exploration', 'Seeded simulated whole-encoder runs (schedule, machine, heap poison, application pacing all drawn from VERIF_SEED) over a configuration swarm; every packet is decoded by dav1d (and libaom) and compared sample-for-sample with the recon of the same display position. Sampling, not proof; right level because the quantifier is configurations x inputs and each evaluation needs the whole concurrent pipeline.', '7 C01', 'dav1d/libaom ABIs hand-declared and probed; configurations rejected by set_parameter are outside the quantifier; quick explores inside the region swept during development'),
 'C02': ('exploration', 'Same simulated runs; an independent OBU/sequence/frame-header parser (written from the AV1 specification) checks every packet as one temporal unit, sequence-header placement/identity and pic_type consistency.', '7 C02', 'the parser is independent of SVT code; NON_REF is checked semantically (never referenced later)'),
 'C03': ('exploration', 'Histories of N submissions (every N up to a bound, rotating GOP settings, pts sequences, pacing) under seeded schedules; FIFO reference model over the recorded API history; liveness decided by the scheduler (no runnable thread = DEADLOCK).', '7 C03', 'EOS is signalled as the reference application does (separate empty buffer); N=0 is polled, not waited for'),
 'C04': ('exploration', 'Case families: one (configuration, content, machine) x K schedules from the policy swarm incl. EINTR/spurious-wake-up/EPERM/clock-jump buggify; output must be byte-identical to the canonical non-preemptive schedule and every run must terminate (decided deadlock/livelock/step limit).', '7 C04', 'interleavings at synchronisation-operation granularity; sampled'),
 'C05': ('exploration', 'Case families over simulated machines (cores 1..64, sockets, degenerate /proc/cpuinfo) x logical_processors x unpin x target_socket; byte-identical output required.', '7 C05', 'affinity calls are recorded, not applied; the simulated machine drives every core-count dependent geometry'),
 'C06': ('exploration', 'Case families over use_cpu_flags levels on the build that contains the AVX-512 kernels; one process per level; byte-identical output required. Executed inside the simulator (fixed schedule).', '7 C06', 'configuration differential; schedule fixed'),
 'C08': ('exploration', 'Streams produced by simulated encodes under a spread of configurations decoded by the SVT decoder (1 thread, both pipeline depths) under the scheduler and compared with dav1d picture by picture.', '7 C08', 'streams from the SVT encoder only'),
 'C09': ('exploration', 'Decoder case families: threads 2..16 x schedule policies with every busy-wait loop turned into a scheduling point; pictures must equal the single-thread result; ASan; decided deadlock/livelock; teardown ledger.', '7 C09', 'instruction-level races on volatile flags are outside the model'),
 'C10': ('exploration', 'Valid streams through a seeded faulty transport (drop/dup/swap/truncate/bit flips/splice/random) into the single-threaded decoder on the ASan+UBSan-arith build with exit/abort traps and a wall-clock watchdog.', '7 C10', 'structured corruption of valid streams, not coverage-guided fuzzing'),
 'C11': ('exploration', 'Corner and swarm configurations on the ASan + arithmetic-UBSan build with traps armed; any sanitizer report, trapped exit/abort, error packet, API error or non-termination is a violation.', '7 C11', 'only the arithmetic UBSan subset is enabled (the rest fires on >100 idiomatic sites)'),
 'C13': ('exploration', 'Case families over prior contents of the caller-owned configuration memory and heap poison bytes; accepted and byte-identical output required.', '7 C13', ''),
 'C14': ('exploration', 'Generated API programs with NULL-argument calls of every entry point and rejected-then-valid set_parameter; protocol model over the recorded history; blocked calls are decided deadlocks.', '7 C14', 'protocol-illegal orders are not generated'),
 'C15': ('exploration', 'Sessions torn down at every protocol point (incl. pictures in flight) for encoder and decoder, 1-3 sessions per process; thread/allocation/mutex/semaphore ledger must be empty and not grow.', '7 C15', 'ledger = objects created by library code through the wrapped primitives'),
 'C16': ('fault_enumeration', 'Census of the K allocations and thread creations during init_handle/set_parameter/init (and decoder start-up) under the fixed schedule, then one run per injected failure: per-site first/last/middle occurrences (quick), every site x 32 and all k while budget lasts (thorough).', '7 C16', 'one fault per run; numbering stable under the non-preemptive schedule; decoder faults are identified by the allocating function (SIMFAULT provenance, DESIGN.md 13.5), encoder faults by the destructor that crashes'),
 'C17': ('exploration', 'Solo runs vs 2-3 encoder instances in one simulated process with staggered init/teardown; per-instance output must equal the solo output; ASan.', '7 C17', 'interference is decided through its consequences; encoder instances only'),
 'C18': ('exploration', 'RC modes x qp bounds x fixed qindex offsets x rail-driving content; oracle on the independently parsed base_q_idx of every coded frame.', '7 C18', 'in this version the only no-scaling configuration is use_fixed_qindex_offsets=1'),
 'C19': ('exploration', 'Intra period x refresh type x hierarchy x length; model of intra positions + fresh-decoder suffix decode from every shown key frame.', '7 C19', 'scene change detection off'),
 'C20': ('exploration', 'Tool on/off families on provoking content; header-level oracle via the independent parser and block-level counters from a guarded hook in the decoder parse path; tiles vs spec limits.', '7 C20', 'block-level counters come from the SVT decoder parsing the stream; the superres on-variant is encoded with TPL off (superres + TPL crashes, KF-C11-superres-tpl)'),
 'C21': ('exploration', 'Case families over caller buffer layouts (stride padding garbage, extra rows, scribble-and-free right after send, buffer reuse) on the ASan build; byte-identical output required.', '7 C21', ''),
 'C22': ('exploration', 'Streams longer than twice the order-hint period (quick) and than the 2048-deep reorder queues (thorough) with the C01/C03 oracles.', '7 C22', 'the order-hint helper clause (all (bits,a,b)) is a pure function: not decided by this family'),
 'C23': ('exploration', 'Component world: real EbSystemResourceManager.c/EbThreads.c with synthetic producers/consumers/releasers/shutdown under the schedule swarm; event ledger + payload exactly-once/order + decided lost wake-ups; ledger also runs over whole-encoder event traces.', '7 C23', 'clients are stubs; interleavings at synchronisation-operation granularity'),
 'C24': ('exploration', 'Component world: real segment init/assignment + SRM feedback with k workers and a recording SB body; sweep of sizes x grids x workers x schedules (thorough sweeps all 65x34 sizes); same oracle on SB events of real encodes.', '7 C24', 'W6 copies the kernel loop bounds; real encodes cover the real loop'),
 'C26': ('exploration', 'stat_report runs; reported SSE compared with sum of squared differences between the submitted picture and the dav1d-decoded picture.', '7 C26', '8-bit, film grain and superres off (measured before those stages)'),
 'C27': ('exploration', 'Case families over application pacing programs; drain-after-every-send must complete (decided), every completing program must give identical output.', '7 C27', ''),
}
NA = [
 ('C07', 'a SIMD kernel is a pure function of its arguments: no schedule, clock, fault or history for a simulator to control; driving kernels with generated buffers would be input generation in simulator vocabulary (DESIGN.md section 8). C06 gives incidental evidence on the kernels real encodes reach.'),
 ('C12', 'verify_settings is a pure predicate on one struct evaluated on a fresh handle: no interleaving, fault or history dimension (retry-after-rejection is decided by C14).'),
 ('C25', 'the entropy writer/reader are sequential pure functions of the symbol/CDF sequence: nothing for deterministic simulation to decide (every C01 run exercises them through dav1d, which is evidence, not a decision).'),
]
def main():
    commits = subprocess.run(['git', '-C', '/repo', 'log', '--format=%h %s', '--grep=^verif hooks'], capture_output=True, text=True).stdout.strip().split('\n')
    m = {
     'version': 1,
     'setup_cmd': 'bin/verif setup',
     'hooks': {'guard': 'SVT_AV1_VERIF',
               'enable': 'bin/build-lib.sh adds -DSVT_AV1_VERIF (and -DNDEBUG) to CMAKE_C_FLAGS/CMAKE_CXX_FLAGS of the out-of-tree verification builds under /verif/.build/{plain,asan}; scheduling, clock, allocation and topology seams need no source change (link-time -Wl,--wrap, sim/wraps.txt)',
               'baseline_off_cmd': 'cmake --build /repo/_build -j8 -- -k 0; ctest --test-dir /repo/_build -j8 --timeout 900',
               'source_commits': [c.split()[0] for c in commits if c], 'add_only': True},
     'engines': [{'name': 'simworld', 'path': 'sim/simcore.c + worlds/*.cc,*.c + oracles/*.cc', 'serves_properties': sorted(CHECKS.keys()), 'kind_free_text': 'deterministic simulator: real pthreads parked on futexes, one baton holder; seeded scheduler policies; simulated OS objects, clock, machine, heap ledger and fault injection; reference decoders via dlopen'},
                 {'name': 'driver', 'path': 'bin/verif + py/vf/*.py', 'serves_properties': sorted(CHECKS.keys()), 'kind_free_text': 'case generation (swarm), parallel execution, oracles, reproduce-twice gate, minimisation, replay files, known findings, evidence'}],
     'checks': [], 'not_applicable': [{'property_id': p, 'reason': r} for p, r in NA],
     'notes': 'Known findings (genuine defects of the pinned tree, with replay files) are listed in known_findings.json; fixes are "fix:" commits in /repo. DESIGN.md explains every check.'}
    for pid in sorted(CHECKS):
        lvl, text, ref, note = CHECKS[pid]
        m['checks'].append({'property_id': pid, 'quick_cmd': 'bin/verif check %s quick' % pid, 'thorough_cmd': 'bin/verif check %s thorough' % pid, 'evidence_file': 'evidence/%s.json' % pid,
                            'replay_cmd_template': 'bin/verif replay {path}', 'engine': 'simworld', 'level_claimed': {'category': lvl, 'text': text, 'design_ref': 'DESIGN.md section ' + ref},
                            'level_note': note or 'sampled exploration; see DESIGN.md section 12 for the limits of the model', 'technique': TECH})
    with open(os.path.join(ROOT, 'MANIFEST.json'), 'w') as f:
        json.dump(m, f, indent=1)
    print('checks:', len(m['checks']), 'hook commits:', m['hooks']['source_commits'])
if __name__ == '__main__':
    main()
