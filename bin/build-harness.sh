#!/bin/bash
# Build the simworld binary for a variant against the static libs in .build/<variant>.
set -e
V=$1
ROOT=$(cd "$(dirname "$0")/.." && pwd)
B=$ROOT/${VERIF_BUILD_DIR:-.build}/$V
REPO=${VERIF_REPO:-/repo}
OUT=$B/harness; mkdir -p "$OUT"
exec 8>"$ROOT/${VERIF_BUILD_DIR:-.build}/$V.hlock"; flock 8
if [ "$V" = fine ] && [ ! -d "$B" ]; then echo "lib for $V not built"; exit 2; fi
if [ "$V" = asan ]; then CC=clang; CXX=clang++; SAN="-fsanitize=address -fsanitize=signed-integer-overflow,integer-divide-by-zero,shift-exponent,float-cast-overflow -fsanitize-recover=all"; else CC=gcc; CXX=g++; SAN=""; fi
INC="-I$REPO/Source/API -I$REPO/Source/Lib/Common/Codec -I$REPO/Source/Lib/Encoder/Codec -I$REPO/Source/Lib/Encoder/Globals -I$REPO/Source/Lib/Common/C_DEFAULT -I$REPO/Source/Lib/Common/ASM_SSE2 -I$REPO/Source/Lib/Decoder/Codec -I$ROOT/sim -I$ROOT/worlds -I$ROOT/oracles"
CF="-O2 -g1 -fno-omit-frame-pointer -DSVT_AV1_VERIF -DNDEBUG $SAN"
objs=""
need_link=0
compile() { # src obj compiler flags
  local src=$1 obj=$2; shift 2
  if [ ! -f "$obj" ] || [ "$src" -nt "$obj" ] || [ -n "$(find $ROOT/sim $ROOT/worlds $ROOT/oracles -name '*.h' -newer "$obj" | head -1)" ]; then "$@" -c "$src" -o "$obj"; need_link=1; fi
}
compile $ROOT/sim/simcore.c $OUT/simcore.o $CC $CF -std=gnu11 $INC &
for f in $ROOT/worlds/*.cc $ROOT/oracles/*.cc; do n=$(basename $f .cc); compile $f $OUT/$n.o $CXX $CF -std=gnu++17 $INC & done
for f in $ROOT/worlds/*.c; do [ -f "$f" ] || continue; n=$(basename $f .c); compile $f $OUT/$n.o $CC $CF -std=gnu11 $INC & done
wait
for f in $ROOT/worlds/*.cc $ROOT/oracles/*.cc $ROOT/worlds/*.c; do [ -f "$f" ] || continue; n=$(basename $f); n=${n%.*}; [ -f $OUT/$n.o ] || { echo "compile failed: $f"; exit 2; }; objs="$objs $OUT/$n.o"; done
[ -f $OUT/simcore.o ] || exit 2
WR=""; for s in $(cat $ROOT/sim/wraps.txt); do WR="$WR -Wl,--wrap=$s"; done
BIN=$B/simworld
if [ ! -f $BIN ] || [ $B/bin/libSvtAv1Enc.a -nt $BIN ] || [ $B/bin/libSvtAv1Dec.a -nt $BIN ] || [ -n "$(find $OUT -name '*.o' -newer $BIN | head -1)" ]; then
  $CXX $SAN -o $BIN.tmp $objs $OUT/simcore.o $B/bin/libSvtAv1Enc.a $B/bin/libSvtAv1Dec.a $WR -lpthread -lm -ldl -Wl,-z,noexecstack 2> $OUT/link.log || { cat $OUT/link.log | grep -v "GNU-stack\|NOTE: This" | head -30; exit 2; }
  mv $BIN.tmp $BIN
fi
