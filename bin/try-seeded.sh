#!/bin/bash
# Run registered checks against a seeded change without touching /repo: a scratch worktree of /repo's HEAD gets
# seeded/<id>/patch.diff applied and is built in its own build directory; both are removed afterwards.
# usage: bin/try-seeded.sh <seeded id> <property> [<property> ...]      (tier from VERIF_TIER, default quick)
set -u
ROOT=$(cd "$(dirname "$0")/.." && pwd)
id=$1; shift
WT=/tmp/ws/$id; BD=.build-s$id
mkdir -p /tmp/ws
git -C /repo worktree remove --force "$WT" >/dev/null 2>&1
git -C /repo worktree add -q --detach "$WT" HEAD || exit 9
if ! git -C "$WT" apply "$ROOT/seeded/$id/patch.diff"; then echo "SEEDED $id: patch does not apply to the current tree"; git -C /repo worktree remove --force "$WT"; exit 8; fi
rc_all=0
for p in "$@"; do
  VERIF_REPO=$WT VERIF_BUILD_DIR=$BD "$ROOT/bin/verif" check "$p" "${VERIF_TIER:-quick}" > "/tmp/ws/$id.$p.log" 2>&1; rc=$?
  echo "SEEDED $id check $p -> exit $rc: $(grep -c '^VIOLATION' /tmp/ws/$id.$p.log) violation line(s)"
  grep -E "^  [A-Z_]+:" "/tmp/ws/$id.$p.log" | head -4 | cut -c1-220
  [ $rc -ne 0 ] && rc_all=$rc
done
git -C /repo worktree remove --force "$WT"
rm -rf "$ROOT/$BD" "$ROOT/evidence-${BD#.}"
exit $rc_all
