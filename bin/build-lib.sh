#!/bin/bash
# Build (incrementally) the static SVT-AV1 libs from /repo's working tree with hooks on.
# usage: build-lib.sh <asan|plain>
set -e
V=$1
ROOT=$(cd "$(dirname "$0")/.." && pwd)
B=$ROOT/${VERIF_BUILD_DIR:-.build}/$V
REPO=${VERIF_REPO:-/repo}
mkdir -p "$B"
exec 9>"$ROOT/${VERIF_BUILD_DIR:-.build}/$V.lock"
flock 9
COMMON="-DNDEBUG -DSVT_AV1_VERIF -g1 -fno-omit-frame-pointer"
if [ "$V" = asan ]; then
  CC=clang; CXX=clang++
  FL="$COMMON -fsanitize=address -fsanitize=signed-integer-overflow,integer-divide-by-zero,shift-exponent,float-cast-overflow -fsanitize-recover=all"
  AVX512=ON
elif [ "$V" = fine ]; then
  # like plain, plus a call to the simulator at every function entry of library code (forced preemption points, DESIGN.md 13.6);
  # hot SIMD/C kernels are left uninstrumented
  CC=gcc; CXX=g++
  FL="$COMMON -finstrument-functions -finstrument-functions-exclude-file-list=ASM_SSE2,ASM_SSSE3,ASM_SSE4_1,ASM_AVX2,ASM_AVX512,C_DEFAULT,third_party,EbBitstreamUnit,EbCabacContextModel,EbTransforms,EbInvTransforms,EbFullLoop,EbRateDistortionCost,EbCdef.c,EbRestoration,EbAvcStyleMcp,convolve,EbPictureOperators,EbUtility,EbComputeSAD"
  AVX512=OFF
elif [ "$V" = mem ]; then
  # like plain, plus a call to the simulator in front of every load/store of library C code (the compiler's -fsanitize=thread
  # instrumentation, linked against simcore's own hooks instead of the TSan runtime): forced preemption points at memory accesses (DESIGN.md 13.7)
  CC=gcc; CXX=g++
  FL="$COMMON -fsanitize=thread"
  AVX512=OFF
else
  CC=gcc; CXX=g++
  FL="$COMMON"
  AVX512=OFF
fi
if [ ! -f "$B/build.ninja" ]; then
  CC=$CC CXX=$CXX cmake -G Ninja -S "$REPO" -B "$B" -DCMAKE_BUILD_TYPE=Release \
    -DBUILD_SHARED_LIBS=OFF -DBUILD_TESTING=OFF -DBUILD_APPS=OFF -DENABLE_AVX512=$AVX512 \
    -DCMAKE_OUTPUT_DIRECTORY="$B/bin/" \
    -DCMAKE_C_FLAGS="$FL" -DCMAKE_CXX_FLAGS="$FL" > "$B/cmake.log" 2>&1 || { cat "$B/cmake.log"; exit 2; }
fi
ninja -C "$B" > "$B/ninja.log" 2>&1 || { tail -50 "$B/ninja.log"; exit 2; }
