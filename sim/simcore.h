/* simcore: deterministic serialising scheduler + OS model for SVT-AV1 verification.
 * All nondeterminism (who runs next, clock, allocation failures, topology) is decided here
 * from one seed.  See DESIGN.md section 3. */
#ifndef SIMCORE_H
#define SIMCORE_H
#include <stdint.h>
#include <stddef.h>
#ifdef __cplusplus
extern "C" {
#endif

enum SimPolicy { POL_NP = 0, POL_RAND, POL_PCT, POL_STARVE, POL_BURST, POL_EXPLICIT, POL_RR };

typedef struct SimDeviation { uint64_t decision; int tid; } SimDeviation;

typedef struct SimConfig {
    uint64_t seed;           /* schedule PRNG seed */
    int      policy;         /* enum SimPolicy */
    int      sw_permille;    /* POL_RAND/POL_BURST: switch probability per decision (0..1000) */
    int      pct_depth;      /* POL_PCT: number of priority change points */
    uint64_t pct_horizon;    /* POL_PCT: expected number of decisions */
    int      starve_mod, starve_rem; /* POL_STARVE: threads with tid%mod==rem are starved (tid>0) */
    int      starve_tid;     /* POL_STARVE: or a specific tid (>=0) */
    const SimDeviation *dev; /* POL_EXPLICIT: deviations from np, sorted by decision */
    size_t   ndev;
    uint64_t step_limit;     /* max decisions (0 = default 50M) */
    uint64_t clock_quantum_ns;
    /* machine */
    int      cores, sockets; /* simulated /proc/cpuinfo; cores total */
    int      cpuinfo_mode;   /* 0 normal, 1 no "physical id" lines, 2 file missing */
    /* memory */
    int      poison;         /* -1: no fill; else byte 0..255 to fill malloc'd blocks */
    int64_t  alloc_fail_at;  /* fail k-th library allocation (1-based); 0 = never */
    int64_t  thread_fail_at; /* fail k-th pthread_create (EAGAIN) */
    /* buggify */
    int      eintr_permille;    /* sem_wait returns EINTR first */
    int      spurious_permille; /* cond_wait wakes spuriously */
    int      eperm_create;      /* pthread_create with attr returns EPERM (forces retry path) */
    /* clock jumps: at decision d add ns */
    uint64_t jump_at[4]; uint64_t jump_ns[4]; int njump;
    /* stall: withhold tid for n decisions starting at decision d */
    uint64_t stall_at; int stall_tid; uint64_t stall_len;
    /* slow application inside an API call: at a scheduling point of task 0 within an API call, with this probability,
       withhold task 0 for up to api_stall_len decisions (the library keeps running) */
    int      api_stall_permille; uint64_t api_stall_len;
    /* fine-grained preemption (build variant "fine": library compiled with -finstrument-functions): every fine_period-th
       (seeded, on average) function entry of library code is a forced preemption point */
    uint64_t fine_period;
    /* memory-access preemption (build variant "mem": library compiled with -fsanitize=thread instrumentation, linked against simcore's
       own hooks instead of the TSan runtime): every mem_period-th (seeded, on average) load/store of library C code is a forced preemption point */
    uint64_t mem_period;
    int      record_trace;   /* keep deviation list for output */
} SimConfig;

typedef struct SimStats {
    uint64_t decisions, switches, spins, sleeps;
    uint64_t trace_hash;     /* hash of the full choice sequence */
    uint64_t sim_ns;         /* simulated nanoseconds elapsed */
    uint64_t threads_created, threads_exited, threads_joined;
    uint64_t mutexes_created, mutexes_destroyed, sems_created, sems_destroyed, conds_created;
    uint64_t lib_allocs, lib_frees, lib_live_blocks, lib_live_bytes, lib_peak_bytes;
    uint64_t alloc_faults_fired, thread_faults_fired, eintr_fired, spurious_fired, eperm_fired, jumps_fired, stall_fired;
    uint64_t max_runnable;
    uint64_t dev_inapplicable;
    uint64_t fine_preemptions, fine_calls;
    uint64_t mem_preemptions, mem_accesses;
} SimStats;

/* fatal outcome callback: class e.g. "DEADLOCK","LIVELOCK","STEP_LIMIT","TRAP_EXIT","TRAP_ABORT","SIM_INTERNAL" */
typedef void (*SimFatalFn)(const char *cls, const char *detail);

void sim_start(const SimConfig *cfg, SimFatalFn fatal);  /* calling thread becomes task 0 */
void sim_stop(void);                                     /* back to pass-through; only task 0 may call, when it is the only live task */
int  sim_active(void);
const SimStats *sim_stats(void);
uint64_t sim_now_ns(void);
uint64_t sim_decision(void);
int  sim_self(void);
void sim_yield(void);                 /* explicit app yield: scheduling point, thread stays runnable */
void sim_app_stall(int n);            /* app-task pacing: yield n times preferring others */
void sim_api_enter(void); void sim_api_exit(void); /* mark app thread as "inside library" (alloc tagging) */
void sim_count_allocs(int on);        /* enable alloc numbering (fault injection window) */
uint64_t sim_alloc_counter(void);
uint64_t sim_thread_create_counter(void);
/* record of the recorded deviation list (valid after sim_stop or in fatal callback) */
size_t sim_trace(const SimDeviation **out);
/* census of allocation sites: enabled via sim_site_census(1): record (site, count, first k, last k) */
void sim_site_census(int on);
typedef struct SimSite { uint64_t site; uint64_t count; uint64_t first, last; } SimSite;
size_t sim_sites(const SimSite **out);
uint64_t sim_last_failed_site(void);
/* leak report: number of live library blocks and up to n sites */
size_t sim_live_blocks(uint64_t *sites, uint64_t *seqs, size_t n);
/* describe wait-for table into buf */
void sim_describe(char *buf, size_t n);
/* return addresses recorded when task tid last blocked (0 if it is not blocked) */
size_t sim_blocked_pcs(int tid, uintptr_t *out, size_t n);
/* thread naming (roles) for starvation targeting and diagnostics: start routine address -> role is done by harness */
void *sim_thread_fn(int tid);
int  sim_nthreads(void);
/* event bus */
typedef void (*SimEventFn)(int kind, uint64_t a, uint64_t b, uint64_t c, uint64_t d);
void sim_set_event_sink(SimEventFn fn);
/* native clock for harness timing */
double sim_wall_s(void);

#ifdef __cplusplus
}
#endif
#endif
