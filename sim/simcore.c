/* simcore.c — serialising seeded scheduler, OS model, clock, machine, heap ledger.
 * Linked with -Wl,--wrap=<sym> for every symbol listed in sim/wraps.txt.  DESIGN.md §3. */
#define _GNU_SOURCE
#include "simcore.h"
#include <pthread.h>
#include <semaphore.h>
#include <stdio.h>
#include <stdlib.h>
#include <string.h>
#include <errno.h>
#include <time.h>
#include <sys/time.h>
#include <unistd.h>
#include <sched.h>
#include <linux/futex.h>
#include <sys/syscall.h>
#include <stdatomic.h>
#include <stdarg.h>

/* ---- real symbols --------------------------------------------------------------------- */
int   __real_pthread_create(pthread_t *, const pthread_attr_t *, void *(*)(void *), void *);
int   __real_pthread_join(pthread_t, void **);
int   __real_pthread_mutex_init(pthread_mutex_t *, const pthread_mutexattr_t *);
int   __real_pthread_mutex_lock(pthread_mutex_t *);
int   __real_pthread_mutex_unlock(pthread_mutex_t *);
int   __real_pthread_mutex_destroy(pthread_mutex_t *);
int   __real_pthread_cond_init(pthread_cond_t *, const pthread_condattr_t *);
int   __real_pthread_cond_wait(pthread_cond_t *, pthread_mutex_t *);
int   __real_pthread_cond_broadcast(pthread_cond_t *);
int   __real_pthread_cond_signal(pthread_cond_t *);
int   __real_pthread_cond_destroy(pthread_cond_t *);
int   __real_sem_init(sem_t *, int, unsigned);
int   __real_sem_wait(sem_t *);
int   __real_sem_post(sem_t *);
int   __real_sem_destroy(sem_t *);
int   __real_clock_gettime(clockid_t, struct timespec *);
int   __real_gettimeofday(struct timeval *, void *);
int   __real_nanosleep(const struct timespec *, struct timespec *);
long  __real_sysconf(int);
FILE *__real_fopen(const char *, const char *);
FILE *__real_fopen64(const char *, const char *);
void *__real_malloc(size_t);
void *__real_calloc(size_t, size_t);
void *__real_realloc(void *, size_t);
int   __real_posix_memalign(void **, size_t, size_t);
void *__real_aligned_alloc(size_t, size_t);
void  __real_free(void *);
void  __real_exit(int) __attribute__((noreturn));
void  __real_abort(void) __attribute__((noreturn));
int   __real_pthread_setaffinity_np(pthread_t, size_t, const cpu_set_t *);
int   __real_pthread_setschedparam(pthread_t, int, const struct sched_param *);

/* ---- state ---------------------------------------------------------------------------- */
#define MAXT 1024
enum { T_FREE = 0, T_RUNNABLE, T_BLK_MUTEX, T_BLK_SEM, T_BLK_COND, T_BLK_JOIN, T_DONE };
typedef struct {
    int         state;
    int         obj;      /* object id waited for (mutex/sem/cond) or tid for join */
    _Atomic int go;
    pthread_t   th;
    void *(*fn)(void *);
    void       *arg;
    void       *ret;
    int         joined_by;
    int         is_lib;    /* created from inside the library */
    int         spinning;  /* last op was a yield */
    int         api_depth;
    int         joined;
    int64_t     prio;      /* PCT */
    uintptr_t   bpc[12];   /* return addresses (frame-pointer chain) captured when the thread last blocked */
    int         nbpc;
} Thr;
static Thr            thr[MAXT];
static int            nthr;
static __thread int   me = -1;
static volatile int   g_on;
static SimConfig      cfg;
static SimStats       st;
static SimFatalFn     g_fatal;
static uint64_t       rng_s[4];
static uint64_t       clock_ns;
static size_t         dev_idx;
static uint64_t       yield_streak;
static SimDeviation  *trace;
static size_t         ntrace, captrace;
static uint64_t       pct_points[64];
static int            pct_next;
static SimEventFn     g_sink;
static int            g_fatal_in_progress;
static uint64_t       fine_rng;
static void           fine_reset(void);
static uint64_t       mem_rng;
static void           mem_reset(void);

enum { O_MUTEX = 1, O_SEM = 2, O_COND = 3 };
typedef struct { void *addr; int kind; int id; int owner; long count; } Obj;
#define OBJ_CAP (1u << 19)
static Obj     *objs;      /* open addressing with backward-shift deletion, keyed by (addr,kind) */
static int      obj_seq;

static uint64_t splitmix(uint64_t *x) { uint64_t z = (*x += 0x9e3779b97f4a7c15ULL); z = (z ^ (z >> 30)) * 0xbf58476d1ce4e5b9ULL; z = (z ^ (z >> 27)) * 0x94d049bb133111ebULL; return z ^ (z >> 31); }
static inline uint64_t rotl(uint64_t x, int k) { return (x << k) | (x >> (64 - k)); }
static uint64_t rnd(void) { uint64_t *s = rng_s; uint64_t r = rotl(s[1] * 5, 7) * 9, t = s[1] << 17; s[2] ^= s[0]; s[3] ^= s[1]; s[1] ^= s[2]; s[0] ^= s[3]; s[2] ^= t; s[3] = rotl(s[3], 45); return r; }
static int coin(int permille) { return permille > 0 && (int)(rnd() % 1000) < permille; }

static void fwait(_Atomic int *p) { while (atomic_load(p) == 0) syscall(SYS_futex, p, FUTEX_WAIT_PRIVATE, 0, NULL, NULL, 0); atomic_store(p, 0); }
static void fwake(_Atomic int *p) { atomic_store(p, 1); syscall(SYS_futex, p, FUTEX_WAKE_PRIVATE, 1, NULL, NULL, 0); }

double sim_wall_s(void) { struct timespec ts; __real_clock_gettime(CLOCK_MONOTONIC, &ts); return ts.tv_sec + ts.tv_nsec * 1e-9; }

static const char *state_name(int s) { static const char *n[] = {"free", "runnable", "blk_mutex", "blk_sem", "blk_cond", "blk_join", "done"}; return n[s]; }
void sim_describe(char *buf, size_t n) {
    size_t o = 0; buf[0] = 0;
    for (int i = 0; i < nthr && o + 64 < n; i++) {
        if (thr[i].state == T_DONE) continue;
        o += snprintf(buf + o, n - o, "t%d:%s%s", i, state_name(thr[i].state), thr[i].spinning ? "(spin)" : "");
        if (thr[i].state >= T_BLK_MUTEX && thr[i].state <= T_BLK_JOIN) o += snprintf(buf + o, n - o, "@%s%d", thr[i].state == T_BLK_JOIN ? "t" : "o", thr[i].obj);
        o += snprintf(buf + o, n - o, " ");
    }
}
size_t sim_blocked_pcs(int tid, uintptr_t *out, size_t n) {
    if (tid < 0 || tid >= nthr || !((thr[tid].state >= T_BLK_MUTEX && thr[tid].state <= T_BLK_JOIN) || (thr[tid].state == T_RUNNABLE && thr[tid].spinning))) return 0;
    size_t k = 0; for (; k < (size_t)thr[tid].nbpc && k < n; k++) out[k] = thr[tid].bpc[k];
    return k;
}
static void fatal(const char *cls, const char *fmt, ...) __attribute__((noreturn));
static void fatal(const char *cls, const char *fmt, ...) {
    char d[4096]; va_list ap; va_start(ap, fmt); vsnprintf(d, sizeof d, fmt, ap); va_end(ap);
    g_fatal_in_progress = 1;
    if (g_fatal) g_fatal(cls, d);
    fprintf(stderr, "SIM FATAL %s %s\n", cls, d);
    _exit(70);
}

/* ---- object table --------------------------------------------------------------------- */
static inline uint32_t ohash(void *a, int kind) { uint64_t x = (uint64_t)(uintptr_t)a * 0x9e3779b97f4a7c15ULL + (uint64_t)kind * 0x632be59bd9b4e019ULL; return (uint32_t)(x >> 40) & (OBJ_CAP - 1); }
static Obj *obj_find(void *a, int kind) {
    for (uint32_t i = ohash(a, kind);; i = (i + 1) & (OBJ_CAP - 1)) { if (!objs[i].addr) return NULL; if (objs[i].addr == a && objs[i].kind == kind) return &objs[i]; }
}
static Obj *obj_get(void *a, int kind, int create_fresh) {
    Obj *o = obj_find(a, kind);
    if (o) { if (create_fresh) { o->id = ++obj_seq; o->owner = -1; o->count = 0; } return o; }
    uint32_t i = ohash(a, kind);
    while (objs[i].addr) i = (i + 1) & (OBJ_CAP - 1);
    if (obj_seq > (int)(OBJ_CAP / 2)) fatal("SIM_INTERNAL", "object table full");
    objs[i].addr = a; objs[i].kind = kind; objs[i].id = ++obj_seq; objs[i].owner = -1; objs[i].count = 0;
    return &objs[i];
}
static void obj_del(void *a, int kind) {
    Obj *o = obj_find(a, kind); if (!o) return;
    uint32_t i = (uint32_t)(o - objs), j = i;
    for (;;) {
        objs[i].addr = NULL;
        for (;;) { j = (j + 1) & (OBJ_CAP - 1); if (!objs[j].addr) return; uint32_t k = ohash(objs[j].addr, objs[j].kind);
            if (i <= j ? (i < k && k <= j) : (i < k || k <= j)) continue; break; }
        objs[i] = objs[j]; i = j;
    }
}

/* ---- scheduler ------------------------------------------------------------------------ */
enum { K_NORMAL = 0, K_BLOCKED = 1, K_YIELD = 2, K_PREEMPT = 3 /* forced preemption at a function boundary (fine variant) */ };
static int is_starved(int t) {
    if (cfg.policy != POL_STARVE) return 0;
    if (cfg.starve_tid >= 0) return t == cfg.starve_tid;   /* starve_tid 0 = a slow application: it only proceeds when the library has nothing to do */
    return t != 0 && cfg.starve_mod > 0 && t % cfg.starve_mod == cfg.starve_rem;
}
static void record_dev(int tid) {
    if (!cfg.record_trace) return;
    if (ntrace == captrace) { captrace = captrace ? captrace * 2 : 1024; trace = __real_realloc(trace, captrace * sizeof *trace); }
    trace[ntrace].decision = st.decisions; trace[ntrace].tid = tid; ntrace++;
}
static void schedule(int kind) {
    int cur = me;
    if (kind == K_BLOCKED || (kind == K_YIELD && yield_streak > 399900)) {   /* where does it wait: remembered for the wait-for signature of a decided deadlock / livelock */
        uintptr_t *fp = (uintptr_t *)__builtin_frame_address(0); int k = 0;
        while (fp && k < 12) { uintptr_t ret = fp[1], *nx = (uintptr_t *)fp[0]; if (!ret) break; thr[cur].bpc[k++] = ret; if (nx <= fp || (uintptr_t)nx - (uintptr_t)fp > (1u << 20)) break; fp = nx; }
        thr[cur].nbpc = k;
    }
    if (kind != K_YIELD) { yield_streak = 0; thr[cur].spinning = 0; } else { thr[cur].spinning = 1; yield_streak++; }
    st.decisions++;
    clock_ns += cfg.clock_quantum_ns;
    for (int j = 0; j < cfg.njump; j++) if (cfg.jump_at[j] == st.decisions) { clock_ns += cfg.jump_ns[j]; st.jumps_fired++; }
    if (st.decisions > cfg.step_limit) fatal("STEP_LIMIT", "decisions=%lu", (unsigned long)st.decisions);
    if (yield_streak > 400000) { char b[2048]; sim_describe(b, sizeof b); fatal("LIVELOCK", "yield_streak=%lu %s", (unsigned long)yield_streak, b); }

    int R[MAXT], n = 0, stalled = -1;
    if (cfg.api_stall_permille && cur == 0 && thr[0].api_depth > 0 && kind == K_NORMAL &&
        !(cfg.stall_len && st.decisions < cfg.stall_at + cfg.stall_len) && coin(cfg.api_stall_permille)) {
        cfg.stall_at = st.decisions; cfg.stall_tid = 0; cfg.stall_len = 1 + rnd() % (cfg.api_stall_len ? cfg.api_stall_len : 1000);
    }
    if (cfg.stall_len && st.decisions >= cfg.stall_at && st.decisions < cfg.stall_at + cfg.stall_len) stalled = cfg.stall_tid;
    for (int i = 0; i < nthr; i++) if (thr[i].state == T_RUNNABLE && i != stalled) R[n++] = i;
    if (n == 0 && stalled >= 0 && stalled < nthr && thr[stalled].state == T_RUNNABLE) R[n++] = stalled; else if (stalled >= 0 && stalled < nthr && thr[stalled].state == T_RUNNABLE) st.stall_fired++;
    if (n == 0) { char b[3072]; sim_describe(b, sizeof b); fatal("DEADLOCK", "decision=%lu %s", (unsigned long)st.decisions, b); }
    if ((uint64_t)n > st.max_runnable) st.max_runnable = n;
    int cur_ok = (kind != K_BLOCKED) && thr[cur].state == T_RUNNABLE && cur != stalled;

    /* canonical non-preemptive choice */
    int np;
    if ((kind == K_NORMAL || kind == K_PREEMPT) && cur_ok) np = cur;
    else if (kind == K_YIELD) {
        np = -1;
        for (int i = 0; i < n; i++) if (R[i] != cur && !thr[R[i]].spinning) { np = R[i]; break; }
        if (np < 0) { for (int i = 0; i < n; i++) if (R[i] > cur) { np = R[i]; break; } if (np < 0) np = R[0]; }
    } else np = R[0];

    int ch = np;
    switch (cfg.policy) {
    case POL_NP: break;
    case POL_RAND: case POL_BURST:
        if (kind == K_BLOCKED) ch = R[rnd() % (unsigned)n]; /* a blocked thread hands over to a uniformly chosen runnable one */
        else if (coin(cfg.sw_permille)) {
            if (kind == K_YIELD && n > 1) { int k = (int)(rnd() % (unsigned)(n - 1)); int idx = 0; for (int i = 0; i < n; i++) if (R[i] != cur) { if (idx == k) { ch = R[i]; break; } idx++; } }
            else ch = R[rnd() % (unsigned)n];
        }
        break;
    case POL_RR: { ch = -1; for (int i = 0; i < n; i++) if (R[i] > cur) { ch = R[i]; break; } if (ch < 0) ch = R[0]; } break;
    case POL_PCT: {
        while (pct_next < cfg.pct_depth && pct_points[pct_next] <= st.decisions) { thr[cur].prio = -(int64_t)(pct_next + 1) * 1000000 ; pct_next++; }
        if (kind == K_YIELD) thr[cur].prio = -(int64_t)2000000000 - (int64_t)st.decisions; /* yielding thread drops below everyone */
        int64_t best = INT64_MIN; ch = R[0];
        for (int i = 0; i < n; i++) if (thr[R[i]].prio > best) { best = thr[R[i]].prio; ch = R[i]; }
    } break;
    case POL_STARVE: {
        /* starved threads run only when every other runnable thread is merely spinning/yielding (so that spin-waits on a starved thread's progress terminate) */
        int best = -1;
        for (int i = 0; i < n && best < 0; i++) if (!is_starved(R[i]) && !thr[R[i]].spinning && !(kind == K_YIELD && R[i] == cur)) best = R[i];
        if (best < 0) for (int i = 0; i < n && best < 0; i++) if (is_starved(R[i]) && !(kind == K_YIELD && R[i] == cur) && !thr[R[i]].spinning) best = R[i];
        if (is_starved(np) && best >= 0) ch = best;
        else if (kind == K_YIELD && best >= 0 && thr[np].spinning) ch = best;
    } break;
    case POL_EXPLICIT:
        while (dev_idx < cfg.ndev && cfg.dev[dev_idx].decision < st.decisions) dev_idx++;
        if (dev_idx < cfg.ndev && cfg.dev[dev_idx].decision == st.decisions) {
            int t = cfg.dev[dev_idx].tid, ok = 0; for (int i = 0; i < n; i++) if (R[i] == t) ok = 1;
            if (ok) ch = t; else st.dev_inapplicable++;
            dev_idx++;
        }
        break;
    }
    if (kind == K_PREEMPT && cfg.policy != POL_NP && cfg.policy != POL_EXPLICIT && ch == cur && n > 1) {
        int k = (int)(rnd() % (unsigned)(n - 1)), idx = 0; for (int i = 0; i < n; i++) if (R[i] != cur) { if (idx == k) { ch = R[i]; break; } idx++; }
    }
    if (ch != np) record_dev(ch);
    st.trace_hash = (st.trace_hash ^ (uint64_t)(ch + 1)) * 1099511628211ULL;
    if (ch == cur) return;
    st.switches++;
    fwake(&thr[ch].go);
    if (thr[cur].state != T_DONE) fwait(&thr[cur].go);
}

static void *tramp(void *p) {
    Thr *t = p; me = (int)(t - thr);
    fwait(&t->go);
    t->ret = t->fn(t->arg);
    t->state = T_DONE; st.threads_exited++;
    if (t->joined_by >= 0) thr[t->joined_by].state = T_RUNNABLE;
    schedule(K_BLOCKED);
    return t->ret;
}

void sim_start(const SimConfig *c, SimFatalFn f) {
    cfg = *c; g_fatal = f;
    if (!cfg.step_limit) cfg.step_limit = 50000000ULL;
    if (!cfg.clock_quantum_ns) cfg.clock_quantum_ns = 10000;
    if (!objs) objs = __real_calloc(OBJ_CAP, sizeof(Obj));
    uint64_t s = cfg.seed ^ 0x5bd1e995abcdef01ULL; for (int i = 0; i < 4; i++) rng_s[i] = splitmix(&s);
    memset(&st, 0, sizeof st); st.trace_hash = 1469598103934665603ULL;
    memset(thr, 0, sizeof thr);
    clock_ns = 1000000000ULL; dev_idx = 0; ntrace = 0; yield_streak = 0; pct_next = 0;
    if (cfg.policy == POL_PCT) {
        if (cfg.pct_depth > 64) cfg.pct_depth = 64;
        uint64_t hz = cfg.pct_horizon ? cfg.pct_horizon : 6000;
        for (int i = 0; i < cfg.pct_depth; i++) pct_points[i] = 1 + rnd() % hz;
        for (int i = 0; i < cfg.pct_depth; i++) for (int j = i + 1; j < cfg.pct_depth; j++) if (pct_points[j] < pct_points[i]) { uint64_t t = pct_points[i]; pct_points[i] = pct_points[j]; pct_points[j] = t; }
    }
    me = 0; nthr = 1; thr[0].state = T_RUNNABLE; thr[0].joined_by = -1; thr[0].prio = (int64_t)(rnd() % 1000000);
    fine_rng = (cfg.seed * 0x9e3779b97f4a7c15ULL) | 1; if (cfg.fine_period) fine_reset();
    mem_rng = (cfg.seed * 0xd1342543de82ef95ULL) | 1; if (cfg.mem_period) mem_reset();
    g_on = 1;
}
void sim_stop(void) {
    if (!g_on) return;
    for (int i = 1; i < nthr; i++) if (thr[i].state != T_DONE) { char b[2048]; sim_describe(b, sizeof b); fatal("SIM_INTERNAL", "sim_stop with live threads: %s", b); }
    g_on = 0;
}
int sim_active(void) { return g_on; }
const SimStats *sim_stats(void) { st.sim_ns = clock_ns - 1000000000ULL; return &st; }
uint64_t sim_now_ns(void) { return clock_ns; }
uint64_t sim_decision(void) { return st.decisions; }
int sim_self(void) { return me; }
int sim_nthreads(void) { return nthr; }
void *sim_thread_fn(int tid) { return tid >= 0 && tid < nthr ? (void *)thr[tid].fn : NULL; }
size_t sim_trace(const SimDeviation **out) { *out = trace; return ntrace; }
void sim_set_event_sink(SimEventFn fn) { g_sink = fn; }
void sim_yield(void) { if (g_on) schedule(K_YIELD); }
void sim_app_stall(int n) { for (int i = 0; i < n && g_on; i++) schedule(K_YIELD); }
void sim_api_enter(void) { if (me >= 0) thr[me].api_depth++; }
void sim_api_exit(void) { if (me >= 0) thr[me].api_depth--; }
static inline int in_lib(void) { return me >= 0 && (thr[me].is_lib || thr[me].api_depth > 0); }

/* ---- fine-grained preemption: the "fine" build variant compiles the library with -finstrument-functions ------------------ */
static uint64_t fine_countdown, fine_rng = 0x243f6a8885a308d3ULL;
static void fine_reset(void) { fine_rng ^= fine_rng << 13; fine_rng ^= fine_rng >> 7; fine_rng ^= fine_rng << 17; fine_countdown = 1 + fine_rng % (2 * cfg.fine_period); }
void __cyg_profile_func_enter(void *fn, void *site) __attribute__((no_instrument_function));
void __cyg_profile_func_exit(void *fn, void *site) __attribute__((no_instrument_function));
void __cyg_profile_func_enter(void *fn, void *site) {
    (void)fn; (void)site;
    if (!g_on || !cfg.fine_period || me < 0) return;
    st.fine_calls++;
    if (--fine_countdown) return;
    fine_reset(); st.fine_preemptions++;
    schedule(K_PREEMPT);
}
void __cyg_profile_func_exit(void *fn, void *site) { (void)fn; (void)site; }

/* ---- memory-access preemption: the "mem" build variant compiles the library with -fsanitize=thread, i.e. with a call in front of every
 * load and store of C code, and links it against the functions below instead of the TSan runtime.  Every mem_period-th access (seeded,
 * on average; the count of accesses is a function of the schedule alone, no address enters a decision) is a forced preemption point, so
 * threads interleave *inside* code that contains no synchronisation operation and no function call: a read-modify-write under the wrong
 * lock, a check-then-act on a shared flag (DESIGN.md 13.7). */
static uint64_t mem_countdown, mem_rng = 0x13198a2e03707344ULL;
static void mem_reset(void) { mem_rng ^= mem_rng << 13; mem_rng ^= mem_rng >> 7; mem_rng ^= mem_rng << 17; mem_countdown = 1 + mem_rng % (2 * cfg.mem_period); }
static inline void mem_access(void) {
    if (!g_on || !cfg.mem_period || me < 0) return;
    st.mem_accesses++;
    if (--mem_countdown) return;
    mem_reset(); st.mem_preemptions++;
    schedule(K_PREEMPT);
}
#define TSAN_HOOK(name) void name(void *a) { (void)a; mem_access(); }
TSAN_HOOK(__tsan_read1) TSAN_HOOK(__tsan_read2) TSAN_HOOK(__tsan_read4) TSAN_HOOK(__tsan_read8) TSAN_HOOK(__tsan_read16)
TSAN_HOOK(__tsan_write1) TSAN_HOOK(__tsan_write2) TSAN_HOOK(__tsan_write4) TSAN_HOOK(__tsan_write8) TSAN_HOOK(__tsan_write16)
TSAN_HOOK(__tsan_unaligned_read2) TSAN_HOOK(__tsan_unaligned_read4) TSAN_HOOK(__tsan_unaligned_read8) TSAN_HOOK(__tsan_unaligned_read16)
TSAN_HOOK(__tsan_unaligned_write2) TSAN_HOOK(__tsan_unaligned_write4) TSAN_HOOK(__tsan_unaligned_write8) TSAN_HOOK(__tsan_unaligned_write16)
TSAN_HOOK(__tsan_volatile_read1) TSAN_HOOK(__tsan_volatile_read2) TSAN_HOOK(__tsan_volatile_read4) TSAN_HOOK(__tsan_volatile_read8) TSAN_HOOK(__tsan_volatile_read16)
TSAN_HOOK(__tsan_volatile_write1) TSAN_HOOK(__tsan_volatile_write2) TSAN_HOOK(__tsan_volatile_write4) TSAN_HOOK(__tsan_volatile_write8) TSAN_HOOK(__tsan_volatile_write16)
void __tsan_read_range(void *a, unsigned long n) { (void)a; (void)n; mem_access(); }
void __tsan_write_range(void *a, unsigned long n) { (void)a; (void)n; mem_access(); }
void __tsan_func_entry(void *pc) { (void)pc; }
void __tsan_func_exit(void) {}
void __tsan_init(void) {}
void __tsan_vptr_update(void **a, void *b) { (void)a; (void)b; }
void __tsan_vptr_read(void **a) { (void)a; }

/* hooks called from /repo (weak there) */
void svt_verif_spin(void) { if (g_on) { st.spins++; schedule(K_YIELD); } }
void svt_verif_event(int kind, uint64_t a, uint64_t b, uint64_t c, uint64_t d) { if (g_sink) g_sink(kind, a, b, c, d); }

/* ---- pthread wraps -------------------------------------------------------------------- */
static uint64_t thread_create_count;
static void report_fault(const char *kind, uint64_t seq, void *ra0);
uint64_t sim_thread_create_counter(void) { return thread_create_count; }
int __wrap_pthread_create(pthread_t *th, const pthread_attr_t *a, void *(*fn)(void *), void *arg) {
    if (!g_on) return __real_pthread_create(th, a, fn, arg);
    if (in_lib()) {
        if (a && cfg.eperm_create) { st.eperm_fired++; return EPERM; }
        thread_create_count++;
        if (cfg.thread_fail_at && (int64_t)thread_create_count == cfg.thread_fail_at) { st.thread_faults_fired++; report_fault("thread", thread_create_count, __builtin_return_address(0)); return EAGAIN; }
    }
    if (nthr >= MAXT) fatal("SIM_INTERNAL", "too many threads");
    int id = nthr++; Thr *t = &thr[id];
    t->state = T_RUNNABLE; t->fn = fn; t->arg = arg; t->joined_by = -1; t->is_lib = in_lib(); atomic_store(&t->go, 0);
    t->prio = (int64_t)(rnd() % 1000000);
    pthread_attr_t at; pthread_attr_init(&at); pthread_attr_setstacksize(&at, 16u << 20);
    int r = __real_pthread_create(&t->th, &at, tramp, t);
    pthread_attr_destroy(&at);
    if (r) fatal("SIM_INTERNAL", "real pthread_create failed %d", r);
    *th = t->th; st.threads_created++;
    schedule(K_NORMAL);
    return 0;
}
int __wrap_pthread_join(pthread_t th, void **ret) {
    if (!g_on) return __real_pthread_join(th, ret);
    int id = -1; for (int i = 1; i < nthr; i++) if (!thr[i].joined && pthread_equal(thr[i].th, th)) { id = i; break; }
    if (id < 0) fatal("SIM_INTERNAL", "join of unknown thread");
    schedule(K_NORMAL);
    if (thr[id].state != T_DONE) { thr[id].joined_by = me; thr[me].state = T_BLK_JOIN; thr[me].obj = id; schedule(K_BLOCKED); }
    thr[id].joined = 1; st.threads_joined++;
    return __real_pthread_join(th, ret);
}
int __wrap_pthread_mutex_init(pthread_mutex_t *m, const pthread_mutexattr_t *a) {
    int r = __real_pthread_mutex_init(m, a);
    if (g_on) { int reinit = obj_find(m, O_MUTEX) != NULL; obj_get(m, O_MUTEX, 1); if (!reinit) st.mutexes_created++; /* re-initialising a live mutex object is one object, not two */ }
    return r;
}
int __wrap_pthread_mutex_destroy(pthread_mutex_t *m) {
    if (g_on) {
        Obj *o = obj_find(m, O_MUTEX);
        if (o && o->owner >= 0 && in_lib()) fprintf(stderr, "SIMWARN destroy of locked mutex o%d owner t%d\n", o->id, o->owner);
        if (o) { obj_del(m, O_MUTEX); st.mutexes_destroyed++; }
        return 0;
    }
    return __real_pthread_mutex_destroy(m);
}
int __wrap_pthread_mutex_lock(pthread_mutex_t *m) {
    if (!g_on || me < 0) return __real_pthread_mutex_lock(m);
    schedule(K_NORMAL);
    Obj *o = obj_get(m, O_MUTEX, 0);
    while (o->owner >= 0) {
        thr[me].state = T_BLK_MUTEX; thr[me].obj = o->id; schedule(K_BLOCKED); o = obj_get(m, O_MUTEX, 0);
    }
    o->owner = me;
    return 0;
}
static void mutex_release(Obj *o) {
    o->owner = -1;
    for (int i = 0; i < nthr; i++) if (thr[i].state == T_BLK_MUTEX && thr[i].obj == o->id) thr[i].state = T_RUNNABLE;
}
int __wrap_pthread_mutex_unlock(pthread_mutex_t *m) {
    if (!g_on || me < 0) return __real_pthread_mutex_unlock(m);
    Obj *o = obj_get(m, O_MUTEX, 0);
    if (o->owner != me) fprintf(stderr, "SIMWARN unlock of mutex o%d not owned (owner t%d, by t%d)\n", o->id, o->owner, me);
    mutex_release(o);
    schedule(K_NORMAL);
    return 0;
}
int __wrap_pthread_cond_init(pthread_cond_t *c, const pthread_condattr_t *a) {
    int r = __real_pthread_cond_init(c, a);
    if (g_on) { obj_get(c, O_COND, 1); st.conds_created++; }
    return r;
}
int __wrap_pthread_cond_destroy(pthread_cond_t *c) { if (g_on) { obj_del(c, O_COND); return 0; } return __real_pthread_cond_destroy(c); }
int __wrap_pthread_cond_broadcast(pthread_cond_t *c) {
    if (!g_on) return __real_pthread_cond_broadcast(c);
    Obj *o = obj_get(c, O_COND, 0);
    for (int i = 0; i < nthr; i++) if (thr[i].state == T_BLK_COND && thr[i].obj == o->id) thr[i].state = T_RUNNABLE;
    schedule(K_NORMAL);
    return 0;
}
int __wrap_pthread_cond_signal(pthread_cond_t *c) {
    if (!g_on) return __real_pthread_cond_signal(c);
    Obj *o = obj_get(c, O_COND, 0);
    int w[MAXT], n = 0; for (int i = 0; i < nthr; i++) if (thr[i].state == T_BLK_COND && thr[i].obj == o->id) w[n++] = i;
    if (n) thr[w[cfg.policy == POL_NP || cfg.policy == POL_EXPLICIT ? 0 : rnd() % (unsigned)n]].state = T_RUNNABLE;
    schedule(K_NORMAL);
    return 0;
}
int __wrap_pthread_cond_wait(pthread_cond_t *c, pthread_mutex_t *m) {
    if (!g_on) return __real_pthread_cond_wait(c, m);
    Obj *oc = obj_get(c, O_COND, 0); Obj *om = obj_get(m, O_MUTEX, 0);
    int cid = oc->id;
    mutex_release(om);
    if (coin(cfg.spurious_permille)) { st.spurious_fired++; schedule(K_YIELD); }
    else { thr[me].state = T_BLK_COND; thr[me].obj = cid; schedule(K_BLOCKED); }
    om = obj_get(m, O_MUTEX, 0);
    while (om->owner >= 0) { thr[me].state = T_BLK_MUTEX; thr[me].obj = om->id; schedule(K_BLOCKED); om = obj_get(m, O_MUTEX, 0); }
    om->owner = me;
    return 0;
}
int __wrap_sem_init(sem_t *s, int sh, unsigned v) {
    int r = __real_sem_init(s, sh, v);
    if (g_on) { Obj *o = obj_get(s, O_SEM, 1); o->count = v; st.sems_created++; }
    return r;
}
int __wrap_sem_destroy(sem_t *s) {
    if (g_on) {
        Obj *o = obj_find(s, O_SEM);
        if (o) { for (int i = 0; i < nthr; i++) if (thr[i].state == T_BLK_SEM && thr[i].obj == o->id) fprintf(stderr, "SIMWARN destroy of semaphore o%d with waiter t%d\n", o->id, i); obj_del(s, O_SEM); st.sems_destroyed++; }
        return 0;
    }
    return __real_sem_destroy(s);
}
int __wrap_sem_post(sem_t *s) {
    if (!g_on || me < 0) return __real_sem_post(s);
    Obj *o = obj_get(s, O_SEM, 0); o->count++;
    for (int i = 0; i < nthr; i++) if (thr[i].state == T_BLK_SEM && thr[i].obj == o->id) thr[i].state = T_RUNNABLE;
    schedule(K_NORMAL);
    return 0;
}
int __wrap_sem_wait(sem_t *s) {
    if (!g_on || me < 0) return __real_sem_wait(s);
    if (coin(cfg.eintr_permille)) { st.eintr_fired++; schedule(K_NORMAL); errno = EINTR; return -1; }
    schedule(K_NORMAL);
    Obj *o = obj_get(s, O_SEM, 0);
    while (o->count == 0) { thr[me].state = T_BLK_SEM; thr[me].obj = o->id; schedule(K_BLOCKED); o = obj_get(s, O_SEM, 0); }
    o->count--;
    return 0;
}
int __wrap_pthread_setaffinity_np(pthread_t t, size_t n, const cpu_set_t *c) { if (g_on) return 0; return __real_pthread_setaffinity_np(t, n, c); }
int __wrap_pthread_setschedparam(pthread_t t, int p, const struct sched_param *s) { if (g_on) return 0; return __real_pthread_setschedparam(t, p, s); }

/* ---- clock ---------------------------------------------------------------------------- */
int __wrap_clock_gettime(clockid_t id, struct timespec *ts) {
    if (!g_on) return __real_clock_gettime(id, ts);
    ts->tv_sec = clock_ns / 1000000000ULL; ts->tv_nsec = clock_ns % 1000000000ULL; return 0;
}
int __wrap_gettimeofday(struct timeval *tv, void *tz) {
    if (!g_on) return __real_gettimeofday(tv, tz);
    tv->tv_sec = clock_ns / 1000000000ULL; tv->tv_usec = (clock_ns % 1000000000ULL) / 1000; return 0;
}
int __wrap_nanosleep(const struct timespec *a, struct timespec *b) {
    if (!g_on) return __real_nanosleep(a, b);
    clock_ns += (uint64_t)a->tv_sec * 1000000000ULL + (uint64_t)a->tv_nsec; st.sleeps++;
    schedule(K_YIELD);
    return 0;
}

/* ---- machine -------------------------------------------------------------------------- */
long __wrap_sysconf(int name) {
    if (g_on && name == _SC_NPROCESSORS_ONLN && cfg.cores > 0) return cfg.cores;
    return __real_sysconf(name);
}
static FILE *fake_cpuinfo(void) {
    if (cfg.cpuinfo_mode == 2) { errno = ENOENT; return NULL; }
    size_t cap = 256 * (size_t)(cfg.cores > 0 ? cfg.cores : 1) + 64; char *buf = __real_malloc(cap); size_t o = 0;
    int sockets = cfg.sockets > 0 ? cfg.sockets : 1; int per = (cfg.cores + sockets - 1) / sockets; if (per < 1) per = 1;
    for (int i = 0; i < cfg.cores; i++) {
        o += snprintf(buf + o, cap - o, "processor\t: %d\nvendor_id\t: SimulatedCPU\nmodel name\t: simcore\n", i);
        if (cfg.cpuinfo_mode == 0) o += snprintf(buf + o, cap - o, "physical id\t: %d\n", i / per);
        o += snprintf(buf + o, cap - o, "core id\t\t: %d\ncpu cores\t: %d\n\n", i % per, per);
    }
    FILE *f = fmemopen(NULL, o + 1, "w+"); if (!f) { __real_free(buf); return NULL; }
    fwrite(buf, 1, o, f); rewind(f); __real_free(buf); return f;
}
FILE *__wrap_fopen(const char *p, const char *m) { if (g_on && cfg.cores > 0 && p && !strcmp(p, "/proc/cpuinfo")) return fake_cpuinfo(); return __real_fopen(p, m); }
FILE *__wrap_fopen64(const char *p, const char *m) { if (g_on && cfg.cores > 0 && p && !strcmp(p, "/proc/cpuinfo")) return fake_cpuinfo(); return __real_fopen64(p, m); }

/* ---- heap ledger ---------------------------------------------------------------------- */
typedef struct { void *p; size_t n; uint64_t seq; uint64_t site; } Blk;
#define BLK_CAP (1u << 21)
static Blk     *blks;
static uint64_t alloc_seq;      /* counts library allocations while counting is on */
static int      counting;
static int      census_on;
static SimSite *sites; static size_t nsites, capsites;
static uint64_t last_failed_site;
extern char __executable_start;

void sim_count_allocs(int on) { counting = on; }
uint64_t sim_alloc_counter(void) { return alloc_seq; }
void sim_site_census(int on) { census_on = on; }
size_t sim_sites(const SimSite **out) { *out = sites; return nsites; }
uint64_t sim_last_failed_site(void) { return last_failed_site; }

static inline uint32_t bhash(void *p) { return (uint32_t)(((uint64_t)(uintptr_t)p * 0x9e3779b97f4a7c15ULL) >> 40) & (BLK_CAP - 1); }
static void blk_add(void *p, size_t n, uint64_t site) {
    if (!blks) blks = __real_calloc(BLK_CAP, sizeof(Blk));
    uint32_t i = bhash(p); while (blks[i].p) i = (i + 1) & (BLK_CAP - 1);
    blks[i].p = p; blks[i].n = n; blks[i].seq = alloc_seq; blks[i].site = site;
    st.lib_allocs++; st.lib_live_blocks++; st.lib_live_bytes += n; if (st.lib_live_bytes > st.lib_peak_bytes) st.lib_peak_bytes = st.lib_live_bytes;
    if (st.lib_live_blocks > BLK_CAP / 2) fatal("SIM_INTERNAL", "block table full");
}
static int blk_del(void *p) {
    if (!blks) return 0;
    uint32_t i = bhash(p);
    for (;; i = (i + 1) & (BLK_CAP - 1)) { if (!blks[i].p) return 0; if (blks[i].p == p) break; }
    st.lib_frees++; st.lib_live_blocks--; st.lib_live_bytes -= blks[i].n;
    uint32_t j = i;
    for (;;) {
        blks[i].p = NULL;
        for (;;) { j = (j + 1) & (BLK_CAP - 1); if (!blks[j].p) return 1; uint32_t k = bhash(blks[j].p);
            if (i <= j ? (i < k && k <= j) : (i < k || k <= j)) continue; break; }
        blks[i] = blks[j]; i = j;
    }
}
size_t sim_live_blocks(uint64_t *s, uint64_t *q, size_t n) {
    size_t k = 0; if (!blks) return 0;
    for (uint32_t i = 0; i < BLK_CAP && k < n; i++) if (blks[i].p) { s[k] = blks[i].site; q[k] = blks[i].seq; k++; }
    return st.lib_live_blocks;
}
static uint64_t call_site(void *ra0) {
    /* site = offsets of up to 3 return addresses (frame-pointer walk), relative to the image base */
    uint64_t h = (uint64_t)((char *)ra0 - &__executable_start);
    void **fp = __builtin_frame_address(0);
    uint64_t acc = h;
    /* fp -> caller frame of the wrapper (depth 1) ; walk two more */
    for (int d = 0; d < 3 && fp; d++) {
        void **nfp = (void **)fp[0]; void *ra = fp[1];
        if (d >= 1) { if (!ra) break; acc = acc * 1000003ULL ^ (uint64_t)((char *)ra - &__executable_start); }
        if (nfp <= fp || (char *)nfp - (char *)fp > (1 << 20)) break;
        fp = nfp;
    }
    return acc;
}
/* fault provenance: which library call site asked for the resource that was refused.  Printed (async-signal-safe, no allocation,
 * no PRNG draw) when the fault fires so that it survives a later crash of the process; the driver symbolises it offline. */
static void report_fault(const char *kind, uint64_t seq, void *ra0) {
    char buf[256]; int o = snprintf(buf, sizeof buf, "SIMFAULT %s seq=%llu pcs=0x%lx", kind, (unsigned long long)seq, (unsigned long)((char *)ra0 - &__executable_start - 1));
    void **fp = __builtin_frame_address(0);
    int found = 0, printed = 0;   /* frames above the wrapper: skip up to the wrapper's own return address (inlining-independent) */
    for (int d = 0; d < 10 && fp && printed < 5; d++) {
        void **nfp = (void **)fp[0]; void *ra = fp[1];
        if (found) { if (!ra || (char *)ra < &__executable_start) break; o += snprintf(buf + o, sizeof buf - o, ",0x%lx", (unsigned long)((char *)ra - &__executable_start - 1)); printed++; }
        else if (ra == ra0) found = 1;
        if (nfp <= fp || (char *)nfp - (char *)fp > (1 << 20)) break;
        fp = nfp;
    }
    buf[o++] = '\n'; if (write(2, buf, (size_t)o) < 0) {}
}
static void census(uint64_t site) {
    for (size_t i = 0; i < nsites; i++) if (sites[i].site == site) { sites[i].count++; sites[i].last = alloc_seq; return; }
    if (nsites == capsites) { capsites = capsites ? capsites * 2 : 512; sites = __real_realloc(sites, capsites * sizeof *sites); }
    sites[nsites].site = site; sites[nsites].count = 1; sites[nsites].first = sites[nsites].last = alloc_seq; nsites++;
}
/* returns 1 if this allocation must fail */
static int pre_alloc(void *ra, uint64_t *site) {
    *site = 0;
    if (!in_lib()) return -1;
    if (counting) {
        alloc_seq++;
        if (census_on || (cfg.alloc_fail_at && (int64_t)alloc_seq == cfg.alloc_fail_at)) *site = call_site(ra);
        if (census_on) census(*site);
        if (cfg.alloc_fail_at && (int64_t)alloc_seq == cfg.alloc_fail_at) { st.alloc_faults_fired++; last_failed_site = *site; report_fault("alloc", alloc_seq, ra); return 1; }
    }
    return 0;
}
void *__wrap_malloc(size_t n) {
    uint64_t site; int f = pre_alloc(__builtin_return_address(0), &site);
    if (f == 1) { errno = ENOMEM; return NULL; }
    void *p = __real_malloc(n);
    if (f == 0 && p) { if (cfg.poison >= 0) memset(p, cfg.poison, n); blk_add(p, n, site); }
    return p;
}
void *__wrap_calloc(size_t a, size_t b) {
    uint64_t site; int f = pre_alloc(__builtin_return_address(0), &site);
    if (f == 1) { errno = ENOMEM; return NULL; }
    void *p = __real_calloc(a, b);
    if (f == 0 && p) blk_add(p, a * b, site);
    return p;
}
void *__wrap_realloc(void *q, size_t n) {
    uint64_t site; int f = pre_alloc(__builtin_return_address(0), &site);
    if (f == 1) { errno = ENOMEM; return NULL; }
    int had = q ? blk_del(q) : 0;
    void *p = __real_realloc(q, n);
    if ((f == 0 || had) && p) blk_add(p, n, site);
    return p;
}
int __wrap_posix_memalign(void **pp, size_t al, size_t n) {
    uint64_t site; int f = pre_alloc(__builtin_return_address(0), &site);
    if (f == 1) return ENOMEM;
    int r = __real_posix_memalign(pp, al, n);
    if (f == 0 && r == 0) { if (cfg.poison >= 0) memset(*pp, cfg.poison, n); blk_add(*pp, n, site); }
    return r;
}
void *__wrap_aligned_alloc(size_t al, size_t n) {
    uint64_t site; int f = pre_alloc(__builtin_return_address(0), &site);
    if (f == 1) { errno = ENOMEM; return NULL; }
    void *p = __real_aligned_alloc(al, n);
    if (f == 0 && p) { if (cfg.poison >= 0) memset(p, cfg.poison, n); blk_add(p, n, site); }
    return p;
}
void __wrap_free(void *p) { if (p) blk_del(p); __real_free(p); }

/* ---- traps ---------------------------------------------------------------------------- */
void __wrap_exit(int c) { if (in_lib() && !g_fatal_in_progress) fatal("TRAP_EXIT", "library called exit(%d) on t%d", c, me); __real_exit(c); }
void __wrap_abort(void) { if (in_lib() && !g_fatal_in_progress) fatal("TRAP_ABORT", "library called abort() on t%d", me); __real_abort(); }
void __wrap___assert_fail(const char *e, const char *f, unsigned l, const char *fn) { fatal("TRAP_ASSERT", "%s:%u %s: %s", f, l, fn, e); }
